#!/bin/bash
# /verif/bin/regress.sh [ids...]: run the quick checks of the given (default: all claimed) properties,
# print one summary line each plus the failed obligations.
cd /verif
IDS="$@"
[ -z "$IDS" ] && IDS=$(python3 -c "import json;print(' '.join(c['property_id'] for c in json.load(open('MANIFEST.json'))['checks']))")
rc=0
for p in $IDS; do
  s=$(date +%s)
  out=$(timeout 900 ./bin/check $p quick 2>&1); r=$?
  e=$(( $(date +%s) - s ))
  echo "== $p exit=$r ${e}s :: $(echo "$out" | grep -E "^$p quick" )"
  echo "$out" | grep -E "^FAILED|KNOWN-FINDING" | cut -c1-300
  [ $r -ne 0 ] && rc=1
done
exit $rc
