#!/bin/bash
# /verif/bin/selftest.sh [filter]: must-fail corpus.  Every entry is a change to a scratch copy of /repo that breaks a
# property; the property's quick check must exit 1 on it.  Entries: reverts of the fix: commits (selftest/reverts.tsv)
# and the seeded changes kept under /verif/seeded/<name>/ (patch.diff + meta.json with "caught_by").
# Also proves that a false lemma is rejected.  Exit 0 when every entry is caught.
export GOFLAGS=-mod=mod GOPROXY=off GOSUMDB=off GOTOOLCHAIN=local CGO_ENABLED=0
V=/verif; F="${1:-}"
[ -x $V/bin/govc ] || (cd $V/govc && go build -o $V/bin/govc .) || exit 2
S=$(mktemp -d /var/tmp/govc-selftest-XXXXXX); trap 'rm -rf "$S"' EXIT
miss=0; n=0
run() { # name prop
  local name="$1" prop="$2"
  (cd "$S/repo" && go build ./... >/dev/null 2>&1) || { echo "SELFTEST $name: does not compile"; miss=$((miss+1)); return; }
  mkdir -p "$S/smt" "$S/rep"
  out=$($V/bin/govc -repo "$S/repo" -spec $V/spec -prop "$prop" -tier quick -noreplay -work "$S/smt" -evidence "$S/ev.json" -replays "$S/rep" -known $V/known_findings.txt 2>&1); rc=$?
  n=$((n+1))
  if [ $rc -eq 1 ]; then echo "SELFTEST $name [$prop]: caught :: $(echo "$out" | grep -m1 '^FAILED' | cut -c1-160)"
  else echo "SELFTEST $name [$prop]: NOT CAUGHT (exit $rc)"; miss=$((miss+1)); fi
  rm -rf "$S/smt" "$S/rep"
}
fresh() { rm -rf "$S/repo"; mkdir -p "$S/repo"; rsync -a --exclude .git /repo/ "$S/repo/"; }
while IFS=$'\t' read -r prop commit paths; do
  case "$prop" in \#*|"") continue;; esac
  name="revert-$commit"; [ -n "$F" ] && [[ "$name $prop" != *"$F"* ]] && continue
  fresh
  git -C /repo show "$commit" -- $paths ':(exclude)**/zz_contracts_verif.go' > "$S/p.diff"
  (cd "$S/repo" && patch -R -p1 -s --no-backup-if-mismatch < "$S/p.diff") || { echo "SELFTEST $name: reverse patch does not apply"; miss=$((miss+1)); continue; }
  run "$name" "$prop"
done < $V/selftest/reverts.tsv
for d in $V/seeded/*/; do
  [ -f "$d/patch.diff" ] && [ -f "$d/meta.json" ] || continue
  name="seeded-$(basename $d)"
  for prop in $(python3 -c "import json,sys; print(' '.join(json.load(open('$d/meta.json')).get('caught_by',[])))"); do
    [ -n "$F" ] && [[ "$name $prop" != *"$F"* ]] && continue
    fresh
    (cd "$S/repo" && patch -p1 -s --no-backup-if-mismatch < "$d/patch.diff") || { echo "SELFTEST $name: patch does not apply"; miss=$((miss+1)); continue; }
    run "$name" "$prop"
  done
done
# a false lemma must not be provable
if [ -z "$F" ] || [[ "lemma" == *"$F"* ]]; then
  mkdir -p "$S/spec"; cp $V/spec/*.spec "$S/spec/"
  echo 'lemma selftest_false(m, w, s) by s [cnthi(m, w, s)]: 0 <= s ==> cnthi(m, w, s) < s' >> "$S/spec/msm.spec"
  fresh
  if $V/bin/govc -repo "$S/repo" -spec "$S/spec" -lemmas -timeout 5 2>&1 | grep "selftest_false" | grep -q "unsat"; then echo "SELFTEST false-lemma: NOT CAUGHT"; miss=$((miss+1)); else echo "SELFTEST false-lemma: caught (not provable)"; fi
fi
echo "selftest: $n changes run, $miss not caught"
[ $miss -eq 0 ]
