#!/bin/bash
# /verif/bin/selftest.sh [filter]: must-fail corpus.  Every entry is a change to a scratch copy of /repo that breaks a
# property; the property's quick check must exit 1 on it.  Entries: reverts of the fix: commits (selftest/reverts.tsv)
# and the seeded changes kept under /verif/seeded/<name>/ (patch.diff + meta.json with "caught_by").
# Also proves that a false lemma is rejected.  Exit 0 when every entry is caught.  JOBS=n runs n entries at a time
# (default 1; the checks are parallel themselves, more than 3 mostly adds timeouts).
export GOFLAGS=-mod=mod GOPROXY=off GOSUMDB=off GOTOOLCHAIN=local CGO_ENABLED=0
V=/verif; F="${1:-}"; JOBS="${JOBS:-1}"
[ -x $V/bin/govc ] || (cd $V/govc && go build -o $V/bin/govc .) || exit 2
T=$(mktemp -d /var/tmp/govc-selftest-XXXXXX); trap 'rm -rf "$T"' EXIT
R="$T/results"; : > "$R"
# entry <name> <prop> <kind> <arg>: kind revert (arg = "commit paths") or patch (arg = patch file)
entry() {
  local name="$1" prop="$2" kind="$3" arg="$4" S; S=$(mktemp -d "$T/e-XXXXXX")
  mkdir -p "$S/repo" "$S/smt" "$S/rep"; rsync -a --exclude .git /repo/ "$S/repo/"
  if [ "$kind" = revert ]; then
    local commit="${arg%% *}" paths="${arg#* }"
    git -C /repo show "$commit" -- $paths ':(exclude)**/zz_contracts_verif.go' > "$S/p.diff"
    (cd "$S/repo" && patch -R -p1 -s --no-backup-if-mismatch < "$S/p.diff") || { echo "SELFTEST $name: reverse patch does not apply: NOT CAUGHT" >> "$R"; rm -rf "$S"; return; }
  else
    (cd "$S/repo" && patch -p1 -s --no-backup-if-mismatch < "$arg") || { echo "SELFTEST $name: patch does not apply: NOT CAUGHT" >> "$R"; rm -rf "$S"; return; }
  fi
  (cd "$S/repo" && go build ./... >/dev/null 2>&1) || { echo "SELFTEST $name: does not compile: NOT CAUGHT" >> "$R"; rm -rf "$S"; return; }
  local out rc
  out=$($V/bin/govc -repo "$S/repo" -spec $V/spec -prop "$prop" -tier quick -noreplay -work "$S/smt" -evidence "$S/ev.json" -replays "$S/rep" -known $V/known_findings.txt 2>&1); rc=$?
  if [ $rc -eq 1 ]; then echo "SELFTEST $name [$prop]: caught :: $(echo "$out" | grep -m1 '^FAILED' | cut -c1-160)" >> "$R"
  else echo "SELFTEST $name [$prop]: NOT CAUGHT (exit $rc)" >> "$R"; fi
  tail -1 "$R"
  rm -rf "$S"
}
throttle() { while [ "$(jobs -rp | wc -l)" -ge "$JOBS" ]; do sleep 1; done; }
while IFS=$'\t' read -r prop commit paths; do
  case "$prop" in \#*|"") continue;; esac
  name="revert-$commit"; [ -n "$F" ] && [[ "$name $prop" != *"$F"* ]] && continue
  throttle; entry "$name" "$prop" revert "$commit $paths" &
done < $V/selftest/reverts.tsv
for d in $V/seeded/*/; do
  [ -f "$d/patch.diff" ] && [ -f "$d/meta.json" ] || continue
  name="seeded-$(basename $d)"
  for prop in $(python3 -c "import json,sys; print(' '.join(json.load(open('$d/meta.json')).get('caught_by',[])))"); do
    [ -n "$F" ] && [[ "$name $prop" != *"$F"* ]] && continue
    throttle; entry "$name" "$prop" patch "$d/patch.diff" &
  done
done
wait
# a false lemma must not be provable
if [ -z "$F" ] || [[ "lemma" == *"$F"* ]]; then
  S="$T/lemma"; mkdir -p "$S/spec" "$S/repo"; cp $V/spec/*.spec "$S/spec/"; rsync -a --exclude .git /repo/ "$S/repo/"
  echo 'lemma selftest_false(m, w, s) by s [cnthi(m, w, s)]: 0 <= s ==> cnthi(m, w, s) < s' >> "$S/spec/msm.spec"
  echo 'lemma selftest_false2(A: (Array Int Int), o, n, lo) by n [AscB(A, o, n, lo)]: forall(i, 0, n - 1, A[o+i] < A[o+i+1]) && (n >= 1 ==> A[o] >= lo && A[o+n-1] <= lo + n) ==> forall(j, 0, n, A[o+j] == lo + j)' >> "$S/spec/seq.spec"
  lo=$($V/bin/govc -repo "$S/repo" -spec "$S/spec" -lemmas -timeout 5 2>&1)
  for l in selftest_false selftest_false2; do
    if echo "$lo" | grep "$l/" | grep -q "unsat"; then echo "SELFTEST false-lemma $l: NOT CAUGHT" | tee -a "$R"; else echo "SELFTEST false-lemma $l: caught (not provable)" | tee -a "$R"; fi
  done
fi
n=$(grep -c . "$R"); miss=$(grep -c "NOT CAUGHT" "$R")
echo "selftest: $n changes run, $miss not caught"
[ $miss -eq 0 ]
