#!/bin/bash
# /verif/bin/oracle.sh <oracle file> <TestName> [repo dir]: run an oracle against a repository tree (default /repo) by overlay
export GOFLAGS=-mod=mod GOPROXY=off GOSUMDB=off GOTOOLCHAIN=local
O="$1"; T="$2"; R="${3:-/repo}"
D=$(sed -n '1s#^//oracle-package: *##p' "$O")
W=$(mktemp -d /var/tmp/oracle-XXXXXX); trap 'rm -rf "$W"' EXIT
cp "$O" "$W/zz_oracle_test.go"
echo "{\"Replace\": {\"$R/$D/zz_oracle_test.go\": \"$W/zz_oracle_test.go\"}}" > "$W/ov.json"
cd "$R" && go test -overlay "$W/ov.json" -vet=off -count=1 -v -timeout 300s -run "^$T\$" "./$D" 2>&1 | grep -v "^=== RUN\|^--- PASS\|^PASS\|^ok" | cut -c1-600
