#!/bin/bash
# /verif/bin/benign_all.sh [filter]: no-false-alarm corpus.  Applies each behaviour-preserving edit kept under
# /verif/benign/<name>/patch.diff to a scratch copy of /repo and runs the quick checks listed in benign/props.tsv.
export GOFLAGS=-mod=mod GOPROXY=off GOSUMDB=off GOTOOLCHAIN=local CGO_ENABLED=0
V=/verif; F="${1:-}"
S=$(mktemp -d /var/tmp/govc-benign-XXXXXX); trap 'rm -rf "$S"' EXIT
bad=0; n=0
while IFS=$'\t' read -r name props expect; do
  case "$name" in \#*|"") continue;; esac
  [ -n "$F" ] && [[ "$name" != *"$F"* ]] && continue
  rm -rf "$S/repo"; mkdir -p "$S/repo"; rsync -a --exclude .git /repo/ "$S/repo/"
  (cd "$S/repo" && patch -p1 -s --no-backup-if-mismatch < $V/benign/$name/patch.diff) || { echo "BENIGN $name: patch does not apply"; continue; }
  for p in $props; do
    mkdir -p "$S/smt" "$S/rep"
    $V/bin/govc -repo "$S/repo" -spec $V/spec -prop "$p" -tier quick -noreplay -work "$S/smt" -evidence "$S/ev.json" -replays "$S/rep" -known $V/known_findings.txt >/dev/null 2>&1; rc=$?
    n=$((n+1))
    if [ $rc -eq 0 ]; then echo "BENIGN $name [$p]: quiet"
    else echo "BENIGN $name [$p]: ALARM (exit $rc) - expected: $expect"; case "$expect" in quiet*) bad=$((bad+1));; esac; fi
    rm -rf "$S/smt" "$S/rep"
  done
done < $V/benign/props.tsv
echo "benign: $n runs, $bad unexpected alarms"
[ $bad -eq 0 ]
