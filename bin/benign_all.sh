#!/bin/bash
# /verif/bin/benign_all.sh [filter]: no-false-alarm corpus.  Applies each behaviour-preserving edit kept under
# /verif/benign/<name>/patch.diff to a scratch copy of /repo and runs the quick checks listed in benign/props.tsv.
# JOBS=n runs n edits at a time (default 1).
export GOFLAGS=-mod=mod GOPROXY=off GOSUMDB=off GOTOOLCHAIN=local CGO_ENABLED=0
V=/verif; F="${1:-}"; JOBS="${JOBS:-1}"
T=$(mktemp -d /var/tmp/govc-benign-XXXXXX); trap 'rm -rf "$T"' EXIT
R="$T/results"; : > "$R"
one() {
  local name="$1" props="$2" expect="$3" S p rc; S=$(mktemp -d "$T/e-XXXXXX")
  mkdir -p "$S/repo"; rsync -a --exclude .git /repo/ "$S/repo/"
  (cd "$S/repo" && patch -p1 -s --no-backup-if-mismatch < $V/benign/$name/patch.diff) || { echo "BENIGN $name: patch does not apply" | tee -a "$R"; rm -rf "$S"; return; }
  for p in $props; do
    mkdir -p "$S/smt" "$S/rep"
    $V/bin/govc -repo "$S/repo" -spec $V/spec -prop "$p" -tier quick -noreplay -work "$S/smt" -evidence "$S/ev.json" -replays "$S/rep" -known $V/known_findings.txt >/dev/null 2>&1; rc=$?
    if [ $rc -eq 0 ]; then echo "BENIGN $name [$p]: quiet" | tee -a "$R"
    else case "$expect" in quiet*) echo "BENIGN $name [$p]: UNEXPECTED ALARM (exit $rc) - expected: $expect" | tee -a "$R";; *) echo "BENIGN $name [$p]: ALARM (exit $rc) - expected: $expect" | tee -a "$R";; esac; fi
    rm -rf "$S/smt" "$S/rep"
  done
  rm -rf "$S"
}
while IFS=$'\t' read -r name props expect; do
  case "$name" in \#*|"") continue;; esac
  [ -n "$F" ] && [[ "$name" != *"$F"* ]] && continue
  while [ "$(jobs -rp | wc -l)" -ge "$JOBS" ]; do sleep 1; done
  one "$name" "$props" "$expect" &
done < $V/benign/props.tsv
wait
n=$(grep -c "\[" "$R"); bad=$(grep -c "UNEXPECTED" "$R")
echo "benign: $n runs, $bad unexpected alarms"
[ $bad -eq 0 ]
