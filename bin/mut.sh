#!/bin/bash
# usage: mut.sh <file> <python-replace-old> <python-replace-new> -- govc args   (applies to /tmp/govc-dev after sync)
export GOFLAGS=-mod=mod GOPROXY=off GOSUMDB=off GOTOOLCHAIN=local
S=/tmp/govc-dev
rsync -a --delete --exclude .git /repo/ $S/
python3 - "$S/$1" "$2" "$3" <<'PY'
import sys
p,old,new=sys.argv[1:4]
s=open(p).read()
assert old in s, "pattern not found"
s=s.replace(old,new,1)
open(p,'w').write(s)
PY
shift 3; shift
(cd $S && go build ./... ) || { echo BUILD FAILED; exit 3; }
exec /verif/bin/govc -repo $S "$@"
