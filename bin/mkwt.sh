#!/bin/bash
# /verif/bin/mkwt.sh <name>: blind scratch worktree of /repo at HEAD under /tmp/wt-<name>
# (the contract comment files are removed so that a sub-agent sees nothing of the checks;
# take the agent's change with: git -C /tmp/wt-<name> diff -- . ':(exclude)**/zz_contracts_verif.go')
set -e
D=/tmp/${2:-wt}-$1
git -C /repo worktree add -q --detach "$D" HEAD
find "$D" -name zz_contracts_verif.go -delete
echo "$D"
