#!/bin/bash
# /verif/bin/seedtest.sh <patch.diff> <id> [<id>...]: apply a seeded change to /repo, run the quick checks of the given
# properties, and undo the change straight afterwards.  Prints one line per property: caught / MISSED.
P="$(realpath "$1")"; shift
[ -z "$(git -C /repo status --porcelain)" ] || { echo "/repo is not clean"; exit 2; }
git -C /repo apply "$P" || exit 2
trap 'git -C /repo checkout -- . ; git -C /repo status --porcelain' EXIT
for id in "$@"; do
  out=$(/verif/bin/check $id quick 2>&1); rc=$?
  if [ $rc -eq 1 ]; then echo "$id: caught (exit 1)"; echo "$out" | grep -E "^FAILED|^VIOLATION" | head -6 | cut -c1-260
  else echo "$id: MISSED (exit $rc)"; echo "$out" | tail -2 | cut -c1-200; fi
done
