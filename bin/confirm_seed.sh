#!/bin/bash
# /verif/bin/confirm_seed.sh <dir>: confirm a seeded change (<dir>/patch.diff, <dir>/demo_test.go) in a fresh scratch worktree:
#  the demonstration passes on the unchanged tree, the patch applies and compiles, the demonstration fails on the
#  changed tree, and the existing test suite behaves as at baseline (only rtcm/handler TestString fails).
export GOFLAGS=-mod=mod GOPROXY=off GOSUMDB=off GOTOOLCHAIN=local
D="$(realpath "$1")"; W=/tmp/wt-confirm-$$
git -C /repo worktree add -q --detach "$W" HEAD || exit 2
trap 'git -C /repo worktree remove --force "$W"' EXIT
PKG=$(sed -n '1s#^// *package-dir: *##p' "$D/demo_test.go" | tr -d ' \r')
[ -d "$W/$PKG" ] || { echo "CONFIRM: bad package-dir '$PKG'"; exit 2; }
cp "$D/demo_test.go" "$W/$PKG/zz_seed_demo_test.go"
cd "$W"
echo "--- demo on the unchanged tree"
if go test -vet=off -count=1 -timeout 300s "./$PKG" 2>&1 | grep -v "TestString" | grep -E "^(--- FAIL|FAIL|panic)" | grep -v "^FAIL$" | grep -v "rtcm/handler" ; then base_demo=fail; else base_demo=pass; fi
# rtcm/handler always fails because of TestString: look at the demo's own tests
names=$(grep -oE "^func (Test[A-Za-z0-9_]+)" "$D/demo_test.go" | awk '{print $2}' | paste -sd'|')
go test -vet=off -count=1 -timeout 300s -run "^($names)\$" "./$PKG" > /tmp/confirm_base_$$.log 2>&1; rc_base=$?
echo "demo on unchanged tree: exit $rc_base"
git apply --check "$D/patch.diff" || { echo "CONFIRM: patch does not apply"; exit 1; }
git apply "$D/patch.diff"
go build ./... || { echo "CONFIRM: does not compile"; exit 1; }
go test -vet=off -count=1 -timeout 300s -run "^($names)\$" "./$PKG" > /tmp/confirm_mut_$$.log 2>&1; rc_mut=$?
echo "demo on changed tree: exit $rc_mut"; tail -15 /tmp/confirm_mut_$$.log | cut -c1-300
rm -f "$W/$PKG/zz_seed_demo_test.go"
echo "--- existing suite on the changed tree"
go test -vet=off -count=1 -timeout 600s ./... 2>&1 | grep -E "^(--- FAIL|FAIL|ok|panic)" | grep -v "^ok" > /tmp/confirm_suite_$$.log
cat /tmp/confirm_suite_$$.log
bad=$(grep -v "TestString" /tmp/confirm_suite_$$.log | grep -v "^FAIL$" | grep -v "FAIL.*rtcm/handler" | wc -l)
rm -f /tmp/confirm_*_$$.log
if [ $rc_base -eq 0 ] && [ $rc_mut -ne 0 ] && [ $bad -eq 0 ]; then echo "CONFIRMED"; exit 0; fi
echo "NOT CONFIRMED (base=$rc_base mut=$rc_mut suite_deviations=$bad)"; exit 1
