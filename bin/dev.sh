#!/bin/bash
# developer helper: sync /repo working tree to a scratch dir and run govc on it
export GOFLAGS=-mod=mod GOPROXY=off GOSUMDB=off GOTOOLCHAIN=local
S=/tmp/govc-dev
mkdir -p $S
[ -n "$SKIP_SYNC" ] || rsync -a --delete --exclude .git /repo/ $S/
exec /verif/bin/govc -repo $S "$@"
