#!/bin/bash
# /verif/bin/benigntest.sh <patch.diff> <id>...: apply a behaviour-preserving edit to /repo, run the quick checks of the
# given properties and undo the edit; any alarm here is a false alarm.
P="$(realpath "$1")"; shift
[ -z "$(git -C /repo status --porcelain)" ] || { echo "/repo is not clean"; exit 2; }
git -C /repo apply "$P" || exit 2
trap 'git -C /repo checkout -- . ; git -C /repo clean -fdq -- apps rtcm file_handler jsonconfig 2>/dev/null; git -C /repo status --porcelain' EXIT
for id in "$@"; do
  out=$(/verif/bin/check $id quick 2>&1); rc=$?
  if [ $rc -eq 0 ]; then echo "$id: quiet"; else echo "$id: FALSE ALARM (exit $rc)"; echo "$out" | grep -E "^FAILED|^VIOLATION|contract error" | head -4 | cut -c1-240; fi
done
