#!/bin/bash
# /verif/bin/keepseed.sh <src dir with patch.diff demo_test.go README.md> <name> <target property> [other properties to try...]
# Confirms the change in a fresh worktree, runs the quick checks of the listed properties against it (applied to /repo and
# undone straight afterwards) and keeps it under /verif/seeded/<name>/ with meta.json.
SRC="$(realpath "$1")"; NAME="$2"; shift 2; TARGET="$1"
OUT=/verif/seeded/$NAME; mkdir -p "$OUT"
conf=$(/verif/bin/confirm_seed.sh "$SRC" 2>&1); echo "$conf" | grep -E "CONFIRM|demo on"
echo "$conf" | grep -q "^CONFIRMED" || { echo "not confirmed - not kept"; rmdir "$OUT" 2>/dev/null; exit 1; }
cp "$SRC/patch.diff" "$SRC/demo_test.go" "$OUT/"; [ -f "$SRC/README.md" ] && cp "$SRC/README.md" "$OUT/"
res=$(/verif/bin/seedtest.sh "$OUT/patch.diff" "$@" 2>&1); echo "$res" | grep -E "caught|MISSED"
python3 - "$OUT" "$NAME" "$TARGET" <<PY
import json,sys,re
out,name,target=sys.argv[1:4]
res='''$res'''
caught=re.findall(r'^(C\d\d): caught',res,re.M); missed=re.findall(r'^(C\d\d): MISSED',res,re.M)
obl=[l.split(' :: ')[0].replace('FAILED ','') for l in res.splitlines() if l.startswith('FAILED')]
replayed=[l for l in res.splitlines() if l.startswith('VIOLATION') and 'no-failing-input-found' not in l]
readme=open(out+'/README.md').read() if __import__('os').path.exists(out+'/README.md') else ''
meta={"name":name,"property":target,"source":"fresh sub-agent given only the property text and a blind scratch worktree",
 "confirmed":"demo passes on the unchanged tree and fails on the changed tree; existing suite as at baseline (bin/confirm_seed.sh)",
 "caught_by":caught,"missed_by":missed,"failed_obligations":obl[:8],"counterexample_replayed":bool(replayed),
 "summary":readme.strip().splitlines()[0][:300] if readme.strip() else ""}
json.dump(meta,open(out+'/meta.json','w'),indent=1)
print(json.dumps(meta)[:400])
PY
