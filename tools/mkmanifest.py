#!/usr/bin/env python3
"""Regenerates /verif/MANIFEST.json from the table below (kept in one place so that it stays valid)."""
import json, subprocess

ENV = "GOFLAGS=-mod=mod GOPROXY=off GOSUMDB=off GOTOOLCHAIN=local"
TECH = "contract-based deductive verification: weakest-precondition style VCs generated from go/ssa of the real functions, contracts in //@ comment files, discharged by z3/z3-new/cvc5"

claimed = {
 "C01": ("only complete CRC-valid frames are typed: postconditions of CheckCRC, getMessageLengthAndType, GetMessage, FetchNextMessageFrame and the loop invariant of HandleMessages over the ghost history of the output channel; every obligation discharged for all byte streams and frame lengths (no bound)", "6 C01"),
 "C02": ("lossless segmentation: byte-channel ADT (model fields cur/pbn over the channel's ghost feed), eatUntilStartOfFrame/FetchNextMessageFrame postconditions RawData == I[c0:cur], HandleMessages tiling invariant over stamped ghost history, close-once obligation; unbounded in stream length", "6 C02"),
 "C03": ("framing rule: per-fetch postconditions SegJunk/SegFrame/SegTrunc (opaque predicates over the logical input) lifted to every delivered message by the HandleMessages invariant", "6 C03"),
 "C14": ("bit-field extraction: GetBitsAsUint64 and GetBitsAsInt64 verified in bit-vector mode (exact Go shift/mask/wrap semantics) against the bitwise statement of the property; the loop is covered by an inductive invariant with a complete 65-way case split on the iteration number; 1016 bridge lemmas tie the bitwise contract to the byte-arithmetic reading used by all int-mode callers", "6 C14"),
 "C04": ("MSM4/MSM7 functional decoding: GetMSMHeader gives every header field, the satellite and signal lists and the cell matrix as functions of the frame bits (cnthi rank function over the masks, with lemmas proved by induction); both GetSatelliteCells give every satellite-cell field as bits/sbits at its field-major position; both GetSignalCells give, under loop invariants over the mask walk, every cell of the matrix as the cell the mask puts there (Row4OK/Row7OK: rank, signal id, attached satellite cell, every field as bits/sbits at position start + width x N + width x rank, signed fields two's complement) and accept every message long enough for the cells the mask announces; both GetMessage compose these into statements over the frame alone, none of which mentions the frame length (padding independence) and accept every well-formed message; all for every mask shape, field value and padding length (no bound)", "6 C04"),
 "C05": ("1005/1006: GetMessage postconditions give every field as the bit field of the property's layout (signed fields as two's complement over the full 38-bit range) and the exact acceptance condition (length and type); the display clause is an argument-flow obligation at the Sprintf call: the value reaching each %.4f verb is within 1e-6 of integer x 0.0001 in the floating-point rounding model; the decoders' safety obligations are part of the check (rejection with an error, not a panic, for every short input)", "6 C05"),
 "C18": ("recent-message queue: representation invariant (keys form the interval of the last n sequence numbers, n <= capacity) and a ghost history of all additions; NewCircularQueue establishes it, Add preserves it and states the whole new view (count min(n+1,N), new message at the new sequence number, every other held message unchanged), GetMessages returns exactly the held messages in sequence order; unbounded in capacity and history; the concurrent clause is a whole-program lock-discipline obligation (guarded fields only under the RWMutex, not touched outside the package) plus the assumption that RWMutex gives mutual exclusion; every field of the queue, present or added later, is subject to the lock-held obligation (reads under RLock/Lock, writes under Lock); the key enumeration getKeysInAscendingOrder is proved too (range over a map modelled by its language semantics, sort.Ints by an assumed contract, a lemma by induction for the interval corollary), so no function of the repository carries an assumed contract", "6 C18"),
 "C19": ("proxy: both relay loops are proved against prophecy connections (any chunking, errors anywhere, data together with an error) and ghost write logs - at every iteration the bytes written to the peer are exactly the bytes read, in order, independent of content; the client-side loop also sends the same bytes to the parser channel, and the frame obligations show that recording a chunk for the report and parsing cannot change it before it is forwarded; the status page is covered by argument-flow obligations at the final Sprintf: the two hex dumps and the message list reach the constant template free of '<' and '>' (Sanitise contract over assumed strings.Replace, loop invariant over the message list), and by the lock-held structural obligation on the report feed's buffers.  TCP/TLS behaviour, the HTTP layer of statusreporter, liveness when the parser stalls, and behaviour after a failed Write are not decided; the proxy's parser goroutine is part of the cone: its safety obligations (no panic on any input) and its lossless-consumption clauses are decided here too", "6 C19"),
 "C20": ("classification: package initialisation establishes the two MSM maps exactly (global-init obligations) and nothing else writes them (whole-program structural obligation); MSM4/MSM7/MSM, GetConstellation, getMSMType, the four decoders' type rejection, GetMessage's timestamp guard, Analyse's dispatch and GetTitleAndComment's non-empty title are postconditions over a symbolic message type, i.e. for all integers", "6 C20"),
 "C06": ("UTC conversion across rollovers: one inductive step over ghost truth (start time T, per constellation the true time u of the last accepted observation and a seen flag): New establishes the relation between the handler's week starts / previous timestamps and the truth, and GetMessage preserves it while reporting exactly the true time and week start for every timestamp that encodes a time satisfying the property's hypotheses; illegal timestamps give an error and leave the state untouched; the other constellations' state is framed; all start times, zones (through In(UTC)), histories and interleavings are covered by the induction", "6 C06"),
 "C15": ("determinism / no hidden state over the whole framing-decoding-display cone (59 functions under contract): every function's frame is proved (only the locations in its modifies clause change: decoders change nothing that existed before the call, Analyse / PrepareForDisplay / String change only their own message, no function stores into the bytes of RawData), a second String call leaves the message exactly as it is, and two whole-program structural obligations exclude hidden state (no package variable written outside package initialisers, every one read is init-only) and nondeterminism sources (goroutines, select, map iteration, clock, random) in the cone; that equal inputs give equal results then follows because every function is a deterministic function of its arguments; Message.Copy promises a fresh copy of the raw bytes; structural obligation idempotent-display (no display function stores into a Message field a value computed from that field's previous content)", "6 C15"),
 "C16": ("rtcmlogger: the copy loop is proved against a prophecy stdin and a ghost stdout log - at every iteration and at loop exit the bytes written equal the bytes consumed, and the blocks sent to the recorder tile the consumed input with private copies; the recorder is proved to write every received block, in order, one Write per block, so its log grows by the concatenation of the blocks; start is covered by the whole-program join obligation (it waits for the recorder's completion signal on every path to its return) and spawn-disjoint.  Assumes sinks accept every write completely; dailylogger is an io.Writer", "6 C16"),
 "C17": ("as C06 with the first observation allowed anywhere in the week of the start time: the relation additionally fixes the previous timestamps to zero before the first message, New establishes that, and the step is proved without the hypothesis that the first observation is not earlier than T", "6 C17"),
 "C07": ("no crash, no hang: zero-tolerance safety sweep over the whole cone of HandleMessages, GetMessage, Analyse, PrepareForDisplay and Message.String (45 functions under contract, everything else inlined): one obligation per index, slice, nil dereference, division, shift count, type assertion, map write, channel operation and precondition of the unchecked bit readers, plus a termination measure for every loop; display code is checked with exact wrap-around arithmetic; both log levels are covered because the level is a symbolic field", "6 C07"),
 "C08": ("ranges, phase ranges, rates: exact integer postconditions for the six GetAggregate* methods (invalid rough value gives 0, invalid fine value falls back to the rough value, otherwise whole x 2^29 + frac x 2^19 + fine with the MSM4 deltas scaled x32 / x4 through the same specification function, which is the MSM4 = MSM7 clause); floating-point postconditions for RangeInMetres, PhaseRange, PhaseRangeRate, PhaseRangeRateDoppler and GetSignalWavelength in the relative-rounding-error model (result within k x 2^-53 of the standard's formula); argument-flow obligations that \"invalid\" reaches the display", "6 C08"),
 "C09": ("reader-to-sinks pipeline: per-stage contracts over ghost channel histories - the reader stage forwards exactly the bytes it read, in order, and closes its channel on return; the framing stage (C02/C03 clauses) turns its byte feed into the segment sequence and closes its output once; the fan-out stage sends every received message, as a value and in order, to every non-nil consumer and closes nothing - plus preconditions checked at each go statement, transfer of close permission at spawn (a second close or a send after hand-over is reported by the close-once / send-closed obligations), termination measures of the framing and fan-out stages on their feeds, and the whole-program spawn-disjoint obligation (the spawner does not touch what it handed over).  Schedules, buffer capacities and timings are not enumerated: each stage is proved for every feed, and the lift to every schedule is Kahn determinism of single-reader/single-writer channel networks (assumption K)", "6 C09/C10"),
 "C13": ("transient end-of-file and timeouts: the reader stage is proved against a prophecy reader (any sequence of results: a byte, end of file, i/o timeout, other error, or nothing; any placement): the byte channel carries exactly the bytes read so far, each once and in order, at every loop iteration and at return; the channel is closed at return; the stage returns only with the error of its last read and every earlier error was a tolerated one.  The wall-clock condition (give up only after the tolerance has elapsed) is the code's own guard and is not restated as a contract; the tolerance clause is decided over a ghost clock (the reader gives up on a tolerated error only after a silent run longer than the configured tolerance; the timer runs only during a silent run), and the framing stage's lossless-segmentation clauses give 'the data received so far is still delivered'", "6 C13"),
 "C10": ("rtcmfilter output: the writer stage is proved to make exactly one Write per typed message of its feed, in order, with that message's raw bytes, and none for non-RTCM messages (typedcnt counting function, per-call write offsets: the writer's log grows by the concatenation of the raw bytes of the typed messages); the readable-log stage makes one Write per message; composed with the C09 stage contracts (reader, framing with the C01/C02/C03 clauses, fan-out) through channel identity; the wiring function passes the fan-out stage's preconditions (distinct, open channels), closes every channel exactly once and waits for all writers (join obligation), for both switches symbolic", "6 C10"),
 "C11": ("output complete at return: whole-program join obligations on displayrtcm3.HandleMessages and rtcmfilter.HandleMessages (every goroutine they start signals completion - deferred close / WaitGroup.Done after its last effect - and the function waits for that signal on every path to its return), plus the display stage contract (one Write per message received until the channel closes) and the C10/C09 stage contracts; writer latency is irrelevant because no contract mentions time", "6 C11"),
 "C12": ("corrupted frame discarded alone: per-fetch postcondition SegCorrupt (cursor lands exactly behind the damaged frame) lifted by the HandleMessages invariant; neighbours are covered by the C03 clauses", "6 C12"),
}

NOTE = ("Assumes: the VC generator and SMT solvers; 64-bit int; assumed contracts for the standard library and dependencies listed in the evidence "
        "(crc24q.Hash is an uninterpreted function of the hashed bytes, errors.New, fmt.Sprintf, package time); safety obligations (no panic, no out-of-range access) of the library functions in a property's cone are part of that property's check, termination measures are decided under C07 and the time properties; "
        "channel semantics are modelled by ghost histories (feed/sent), so schedules and capacities are covered by the Kahn-determinism meta-argument, not enumerated.")

not_applicable = {
}

pending = []

def main():
    checks = []
    for pid in sorted(claimed):
        text, ref = claimed[pid]
        checks.append({
            "property_id": pid,
            "quick_cmd": f"/verif/bin/check {pid} quick",
            "thorough_cmd": f"/verif/bin/check {pid} thorough",
            "evidence_file": f"/verif/evidence/{pid}.json",
            "replay_cmd_template": f"/verif/bin/check {pid} --replay {{path}}",
            "engine": "govc",
            "level_claimed": {"category": "proof", "text": text, "design_ref": "DESIGN.md section " + ref},
            "level_note": NOTE,
            "technique": TECH,
        })
    na = []
    for pid in pending:
        if pid not in claimed:
            na.append({"property_id": pid, "reason": not_applicable.get(pid, "obligations not yet generated by the delivered engine (work in progress; see DESIGN.md section 10)")})
    hooks_commits = subprocess.run(["git","-C","/repo","log","--format=%h %s"],capture_output=True,text=True).stdout.splitlines()
    hook_ids = [l.split()[0] for l in hooks_commits if "verif hooks" in l]
    m = {
        "version": 1,
        "setup_cmd": f"cd /verif/govc && {ENV} go build -o /verif/bin/govc . && mkdir -p /verif/evidence /verif/replays",
        "hooks": {
            "guard": "verif",
            "enable": "go build -tags verif ./...   (the hook files zz_contracts_verif.go contain only comments; only the verifier's loader reads them)",
            "baseline_off_cmd": f"cd /repo && {ENV} go test -json -vet=off -count=1 -timeout 25m ./...",
            "source_commits": hook_ids,
            "add_only": True,
        },
        "engines": [{"name": "govc", "path": "/verif/govc", "serves_properties": sorted(claimed), "kind_free_text": "VC generator over go/ssa + SMT portfolio (z3 4.8.12, z3 5.1.0, cvc5 1.0)"}],
        "checks": checks,
        "not_applicable": na,
        "notes": "Contracts live in /repo/**/zz_contracts_verif.go (build tag verif) and /verif/spec/*.spec; fixed defects and known findings in /verif/known_findings.txt.",
    }
    json.dump(m, open("/verif/MANIFEST.json","w"), indent=1)
    print("wrote MANIFEST.json with", len(checks), "checks,", len(na), "not applicable")

main()
