#!/usr/bin/env python3
# tools/mkfigures.py [thorough log]: rewrites section 13 of DESIGN.md from the evidence files of the last quick run
# (and, for the thorough column, from a log with lines "== Cxx exit=0 <n>s").
import json, glob, re, sys
rows = []; fns = set()
structural = ('join','lock-held','lock-release','spawn-wiring','spawn-disjoint','writer-flush','config-mapping','no-hidden-state','deterministic','encapsulated','globals-init-only','idempotent-display')
for f in sorted(glob.glob('/verif/evidence/C*.json')):
    e = json.load(open(f)); c = e['coverage']; kinds = c['obligations_by_kind']
    st = sum(v for k, v in kinds.items() if k in structural)
    rows.append((e['property_id'], len(c['functions_under_contract']), c['obligations'], c['discharged'], st, kinds.get('lemma', 0), kinds.get('bridge', 0), kinds.get('callsite', 0), round(e['wall_s']), e.get('tier', '')))
    fns |= set(c['functions_under_contract'])
th = {}
if len(sys.argv) > 1:
    for l in open(sys.argv[1]):
        m = re.match(r'== (C\d\d) exit=0 (\d+)s', l)
        if m: th[m.group(1)] = int(m.group(2))
tab = '| property | functions under contract | obligations | discharged | of which structural | lemmas | bridge lemmas | argument-flow | quick (s) | thorough (s) |\n|---|---|---|---|---|---|---|---|---|---|\n'
for r in rows:
    tab += '| %s | %d | %d | %d | %d | %d | %d | %d | %d | %s |\n' % (r[:9] + (th.get(r[0], ''),))
s = open('/verif/DESIGN.md').read()
if '## 13. Figures' in s: s = s[:s.index('## 13. Figures')]
s = s.rstrip() + '''

## 13. Figures (from the evidence files of the last run on the unchanged tree)

%d distinct functions of the repository are under contract in some cone, none of them by an
assumed contract; everything else reachable from them is inlined into their verification.
Times are wall-clock on the 16-core sandbox (the quick column with nothing else running; the
thorough column was measured while the must-fail corpus was running beside it, alone it is
about a third less); the thorough tier re-runs every obligation on all solvers (they must
agree), with a 60 s limit, and then cross-validates oracle and demonstrations against the tree.

%s
Must-fail corpus (`bin/selftest.sh`): 11 reverts of `fix:` commits, 156 seeded changes that
a check is expected to catch (of 163 kept; 7 are documented as out of reach in 12.2), two
false lemmas.  No-false-alarm corpus (`bin/benign_all.sh`): 52 harmless edits, 1 expected alarm.
(Regenerate this section with `tools/mkfigures.py <thorough log>`.)
''' % (len(fns), tab)
open('/verif/DESIGN.md', 'w').write(s)
print(len(fns), 'functions;', len(rows), 'rows; tiers:', sorted(set(r[9] for r in rows)))
