package main

// Structural obligations of the pipeline / concurrency properties: lock
// discipline (lock-held), goroutine joins, channel close ownership.  They are
// decided by dominance and use-def analyses over the SSA of the repository.

import (
	"go/constant"
	"fmt"
	"go/types"
	"sort"
	"strings"

	"golang.org/x/tools/go/ssa"
)

// ---------------------------------------------------------------- lock-held

type lockCall struct {
	ins     ssa.Instruction
	write   bool      // Lock (true) or RLock (false)
	base    ssa.Value // object whose mutex field is locked
	deferred bool
	unlock  bool
}

// mutexCalls finds Lock/RLock/Unlock/RUnlock calls in fn on the mutex field mfield of objects of type t.
func mutexCalls(fn *ssa.Function, t types.Type, mfield int) []lockCall {
	var out []lockCall
	for _, b := range fn.Blocks {
		for _, ins := range b.Instrs {
			var cc *ssa.CallCommon
			deferred := false
			switch x := ins.(type) {
			case *ssa.Call:
				cc = &x.Call
			case *ssa.Defer:
				cc = &x.Call
				deferred = true
			default:
				continue
			}
			callee := cc.StaticCallee()
			if callee == nil || callee.Pkg == nil || callee.Pkg.Pkg.Path() != "sync" || len(cc.Args) == 0 {
				continue
			}
			name := callee.Name()
			if name != "Lock" && name != "RLock" && name != "Unlock" && name != "RUnlock" {
				continue
			}
			// receiver: either &obj.mu (value mutex field) or load of obj.mu (pointer field)
			recv := cc.Args[0]
			var fa *ssa.FieldAddr
			if u, ok := recv.(*ssa.UnOp); ok {
				fa, _ = u.X.(*ssa.FieldAddr)
			} else {
				fa, _ = recv.(*ssa.FieldAddr)
			}
			if fa == nil || fa.Field != mfield || !types.Identical(derefType(fa.X.Type()), t) {
				continue
			}
			out = append(out, lockCall{ins: ins, write: name == "Lock" || name == "Unlock", base: fa.X, deferred: deferred, unlock: strings.HasSuffix(name, "nlock")})
		}
	}
	return out
}

func instrDominates(a, b ssa.Instruction) bool {
	if a.Block() == b.Block() {
		for _, ins := range a.Block().Instrs {
			if ins == a {
				return true
			}
			if ins == b {
				return false
			}
		}
	}
	return a.Block().Dominates(b.Block())
}

// holds reports whether at instruction at, fn holds the mutex of base (write lock if needWrite)
// with a deferred matching unlock.
func holds(fn *ssa.Function, calls []lockCall, base ssa.Value, at ssa.Instruction, needWrite bool) bool {
	for _, c := range calls {
		if c.base != base || c.unlock || c.deferred || !instrDominates(c.ins, at) || !(c.write || !needWrite) {
			continue
		}
		// the lock c dominates the access; it is still held there unless an explicit unlock of the
		// same kind can run between the two (that every lock is released at all is lock-release)
		stillHeld := true
		for _, d := range calls {
			if d.base != base || !d.unlock || d.deferred || d.write != c.write {
				continue
			}
			if reachableAfter(d.ins, at) && !reachableAfter(d.ins, c.ins) && reachableAfter(c.ins, d.ins) {
				stillHeld = false
			}
		}
		if stillHeld {
			return true
		}
	}
	return false
}

func (e *Engine) lockHeld(prop string) []*Oblig {
	var out []*Oblig
	var keys []string
	for k := range e.lib.Types {
		keys = append(keys, k)
	}
	sort.Strings(keys)
	for _, tk := range keys {
		ts := e.lib.Types[tk]
		if len(ts.Guarded) == 0 {
			continue
		}
		t := e.typeByKey(tk)
		if t == nil {
			continue
		}
		st := t.Underlying().(*types.Struct)
		fieldIdx := func(name string) int {
			for i := 0; i < st.NumFields(); i++ {
				if st.Field(i).Name() == name {
					return i
				}
			}
			return -1
		}
		pkgPath := tk[:strings.LastIndex(tk, ".")]
		var problems []string
		type access struct {
			fn    *ssa.Function
			fa    *ssa.FieldAddr
			write bool
		}
		// unexported helpers that access guarded fields without locking: checked at their call sites
		helperNeeds := map[*ssa.Function]bool{} // fn -> needs write lock
		// "guarded_by mu: *" stands for every field of the struct except the mutex itself, including
		// fields added later (a scratch buffer written under the read lock is a data race)
		guard := map[string]string{}
		for g, mu := range ts.Guarded {
			if g != "*" {
				guard[g] = mu
			}
		}
		if mu, all := ts.Guarded["*"]; all {
			for i := 0; i < st.NumFields(); i++ {
				if n := st.Field(i).Name(); n != mu {
					guard[n] = mu
				}
			}
		}
		var gnames []string
		for g := range guard {
			gnames = append(gnames, g)
		}
		sort.Strings(gnames)
		for _, fn := range e.repoFunctions() {
			for _, g := range gnames {
				gi := fieldIdx(g)
				mi := fieldIdx(guard[g])
				if gi < 0 || mi < 0 {
					problems = append(problems, "unknown field in guarded_by: "+g)
					continue
				}
				calls := mutexCalls(fn, t, mi)
				for _, b := range fn.Blocks {
					for _, ins := range b.Instrs {
						fa, ok := ins.(*ssa.FieldAddr)
						if !ok || fa.Field != gi || !types.Identical(derefType(fa.X.Type()), t) {
							continue
						}
						if fn.Pkg == nil || fn.Pkg.Pkg.Path() != pkgPath {
							problems = append(problems, fmt.Sprintf("%s: guarded field %s accessed outside package %s", e.pos(ins), g, pkgPath))
							continue
						}
						if _, fresh := fa.X.(*ssa.Alloc); fresh {
							continue // object under construction, not yet shared
						}
						w := isWriteAccess(fa)
						if holds(fn, calls, fa.X, ins, w) {
							continue
						}
						// helper method: receiver is the first parameter and the method is unexported
						if len(fn.Params) > 0 && fa.X == fn.Params[0] && !fn.Object().Exported() {
							if w {
								helperNeeds[fn] = true
							} else if _, seen := helperNeeds[fn]; !seen {
								helperNeeds[fn] = false
							}
							continue
						}
						kind := "read"
						if w {
							kind = "write"
						}
						problems = append(problems, fmt.Sprintf("%s: %s of guarded field %s in %s without holding %s (with a deferred unlock)", e.pos(ins), kind, g, fn.Name(), guard[g]))
					}
				}
			}
		}
		// the mutex is locked only inside the type's own package (a caller that takes the read lock and
		// then calls a method that takes it again deadlocks against a waiting writer), and no function of
		// the package calls a locking method of the same type while it holds the lock itself
		{
			mi := fieldIdx(guard[gnames[0]])
			locking := map[*ssa.Function]bool{}
			for _, fn := range e.repoFunctions() {
				if len(mutexCalls(fn, t, mi)) == 0 {
					continue
				}
				if fn.Pkg == nil || fn.Pkg.Pkg.Path() != pkgPath {
					problems = append(problems, fmt.Sprintf("%s: %s locks the %s of a %s from outside package %s", e.pos(fn.Blocks[0].Instrs[0]), fn.Name(), guard[gnames[0]], tk[strings.LastIndex(tk, ".")+1:], pkgPath))
					continue
				}
				locking[fn] = true
			}
			for fn := range locking {
				calls := mutexCalls(fn, t, mi)
				for _, b := range fn.Blocks {
					for _, ins := range b.Instrs {
						c, ok := ins.(*ssa.Call)
						if !ok {
							continue
						}
						callee := c.Call.StaticCallee()
						if callee == nil || !locking[callee] || len(c.Call.Args) == 0 {
							continue
						}
						if holds(fn, calls, c.Call.Args[0], ins, false) {
							problems = append(problems, fmt.Sprintf("%s: %s calls %s, which takes the lock, while holding it (sync mutexes are not re-entrant)", e.pos(ins), fn.Name(), callee.Name()))
						}
					}
				}
			}
		}
		// call sites of helpers; a caller that is itself an unexported helper on the same receiver and
		// does not hold the lock passes the need on to its own callers (fixpoint)
		{
			mi := fieldIdx(guard[gnames[0]])
			type site struct {
				fn  *ssa.Function
				ins *ssa.Call
			}
			checked := map[*ssa.Function]bool{}
			callers := map[*ssa.Function]int{}
			var pending []string
			for changed := true; changed; {
				changed = false
				pending = nil
				for h, needW := range helperNeeds {
					_ = checked
					for _, fn := range e.repoFunctions() {
						calls := mutexCalls(fn, t, mi)
						for _, b := range fn.Blocks {
							for _, ins := range b.Instrs {
								c, ok := ins.(*ssa.Call)
								if !ok || c.Call.StaticCallee() != h || len(c.Call.Args) == 0 {
									continue
								}
								callers[h]++
								if holds(fn, calls, c.Call.Args[0], ins, needW) {
									continue
								}
								if len(fn.Params) > 0 && c.Call.Args[0] == fn.Params[0] && fn.Object() != nil && !fn.Object().Exported() && fn.Pkg != nil && fn.Pkg.Pkg.Path() == pkgPath {
									if cur, seen := helperNeeds[fn]; !seen || (needW && !cur) {
										helperNeeds[fn] = needW || cur
										changed = true
									}
									continue
								}
								pending = append(pending, fmt.Sprintf("%s: %s calls %s without holding the lock it needs", e.pos(ins), fn.Name(), h.Name()))
							}
						}
					}
				}
			}
			problems = append(problems, pending...)
			for h := range helperNeeds {
				if callers[h] == 0 {
					problems = append(problems, fmt.Sprintf("helper %s accesses guarded fields without a lock and has no checked call site", h.Name()))
				}
			}
		}
		out = append(out, structOblig("lock-held/"+tk[strings.LastIndex(tk, "/")+1:], "lock-held",
			fmt.Sprintf("fields %s of %s are read only under RLock/Lock and written only under Lock of their mutex, with a deferred unlock; not touched outside the package", strings.Join(gnames, ", "), tk),
			[]string{prop}, problems))
	}
	return out
}

// isWriteAccess: the field address is stored to, or the map/slice loaded from it is updated.
func isWriteAccess(fa *ssa.FieldAddr) bool {
	for _, ref := range *fa.Referrers() {
		switch r := ref.(type) {
		case *ssa.Store:
			if r.Addr == fa {
				return true
			}
		case *ssa.UnOp:
			for _, use := range *r.Referrers() {
				switch u := use.(type) {
				case *ssa.MapUpdate:
					if u.Map == r {
						return true
					}
				case *ssa.Call:
					if b, ok := u.Call.Value.(*ssa.Builtin); ok && b.Name() == "delete" && u.Call.Args[0] == r {
						return true
					}
				case *ssa.IndexAddr:
					for _, rr := range *u.Referrers() {
						if s, ok := rr.(*ssa.Store); ok && s.Addr == u {
							return true
						}
					}
				}
			}
		}
	}
	return false
}

// spawnWiring: the goroutines a function starts run only the stages its contract names
// ("spawns[Cxx] f, g"): which stage is attached to which sink is decided here, the stages
// themselves by their own contracts.
func (e *Engine) spawnWiring(prop string) []*Oblig {
	var out []*Oblig
	probe := &Unit{prop: prop}
	for _, k := range e.lib.sortedContractKeys() {
		ct := e.lib.Contracts[k]
		fn := e.fnByKey[k]
		if fn == nil {
			continue
		}
		for _, sp := range ct.Spawns {
			if !probe.active(sp.Props) {
				continue
			}
			allowed := map[string]bool{}
			for _, n := range sp.Names {
				allowed[n] = true
			}
			var problems []string
			n := 0
			for _, b := range fn.Blocks {
				for _, ins := range b.Instrs {
					g, ok := ins.(*ssa.Go)
					if !ok {
						continue
					}
					n++
					callee := g.Call.StaticCallee()
					if callee == nil {
						if g.Call.IsInvoke() {
							problems = append(problems, fmt.Sprintf("%s: goroutine started through an interface method", e.pos(ins)))
						} else if mc, isMC := g.Call.Value.(*ssa.MakeClosure); isMC {
							callee, _ = mc.Fn.(*ssa.Function)
						}
					}
					if callee == nil {
						problems = append(problems, fmt.Sprintf("%s: goroutine with a callee that cannot be resolved", e.pos(ins)))
						continue
					}
					// the stages a goroutine runs: the functions under contract reachable from the spawned
					// function through function literals and helpers that carry no contract of their own
					var stages []*ssa.Function
					seenFn := map[*ssa.Function]bool{}
					var walk func(f *ssa.Function, depth int) bool
					walk = func(f *ssa.Function, depth int) bool {
						if f == nil || depth > 3 {
							return false
						}
						if seenFn[f] {
							return true
						}
						seenFn[f] = true
						if f.Parent() == nil && (e.lib.Contracts[f.String()] != nil || f.Blocks == nil) {
							stages = append(stages, f)
							return true
						}
						found := false
						for _, cb := range f.Blocks {
							for _, ci := range cb.Instrs {
								var cc *ssa.CallCommon
								switch x := ci.(type) {
								case *ssa.Call:
									cc = &x.Call
								case *ssa.Defer:
									cc = &x.Call
								case *ssa.Go:
									cc = &x.Call
								}
								if cc == nil {
									continue
								}
								if c := cc.StaticCallee(); c != nil && e.inRepoStrict(c) {
									if walk(c, depth+1) {
										found = true
									}
								}
							}
						}
						if !found {
							// a helper or function literal that reaches no function under contract does the
							// goroutine's work itself: it is the stage
							stages = append(stages, f)
						}
						return true
					}
					walk(callee, 0)
					for _, st := range stages {
						if !allowed[st.Name()] {
							problems = append(problems, fmt.Sprintf("%s: the goroutine started here runs %s, which is not one of the stages the contract names (%s)", e.pos(ins), st.Name(), strings.Join(sp.Names, ", ")))
						}
					}
				}
			}
			o := structOblig("spawn-wiring/"+shortKey(k), "spawn-wiring",
				fmt.Sprintf("every goroutine %s starts (%d go statements) runs only the stages its contract names: %s", fn.Name(), n, strings.Join(sp.Names, ", ")),
				[]string{prop}, problems)
			o.Pos = sp.Where
			out = append(out, o)
		}
	}
	return out
}

func (e *Engine) pipelineObligations(prop string) []*Oblig {
	var out []*Oblig
	out = append(out, e.spawnWiring(prop)...)
	switch prop {
	case "C10":
		out = append(out, e.writerFlush(prop, "/apps/rtcmfilter", "rtcmfilter")...)
		out = append(out, e.sinkDistinct(prop, "/apps/rtcmfilter", "rtcmfilter")...)
		out = append(out, e.configMapping(prop, "/apps/rtcmfilter", "rtcmfilter")...)
	case "C11":
		out = append(out, e.writerFlush(prop, "/apps/rtcmfilter", "rtcmfilter")...)
		out = append(out, e.writerFlush(prop, "/apps/displayrtcm3", "displayrtcm3")...)
	case "C16":
		out = append(out, e.writerFlush(prop, "/apps/rtcmlogger", "rtcmlogger")...)
		out = append(out, e.sinkDistinct(prop, "/apps/rtcmlogger", "rtcmlogger")...)
	case "C19":
		out = append(out, e.writerFlush(prop, "/apps/proxy", "the proxy packages")...)
		out = append(out, e.handoverFresh(prop)...)
	}
	switch prop {
	case "C07", "C15":
		out = append(out, e.lockRelease(prop, e.coneOf(extraRoots["C07"]), "the framing, decoding and display cone")...)
	}
	switch prop {
	case "C18", "C19":
		var fns []*ssa.Function
		for _, fn := range e.repoFunctions() {
			if fn.Pkg != nil && strings.Contains(fn.Pkg.Pkg.Path(), "/apps/proxy") {
				fns = append(fns, fn)
			}
		}
		out = append(out, e.lockRelease(prop, fns, "the proxy packages")...)
	}
	switch prop {
	case "C18", "C19", "C15":
		// (C15: the messages held for the status page are displayed by concurrent readers)
		out = append(out, e.lockHeld(prop)...)
	case "C16":
		out = append(out, e.joinObligations(prop, []string{"github.com/goblimey/go-ntrip/apps/rtcmlogger.start"})...)
		out = append(out, e.spawnDisjoint(prop, []string{"github.com/goblimey/go-ntrip/apps/rtcmlogger.start"})...)
	case "C11":
		out = append(out, e.joinObligations(prop, []string{
			"github.com/goblimey/go-ntrip/apps/displayrtcm3.HandleMessages",
			"github.com/goblimey/go-ntrip/apps/rtcmfilter.HandleMessages",
		})...)
	case "C10":
		out = append(out, e.joinObligations(prop, []string{"github.com/goblimey/go-ntrip/apps/rtcmfilter.HandleMessages"})...)
		out = append(out, e.spawnDisjoint(prop, []string{
			"github.com/goblimey/go-ntrip/apps/rtcmfilter.HandleMessages",
			"(*github.com/goblimey/go-ntrip/file_handler.Handler).Handle",
			"(*github.com/goblimey/go-ntrip/apps/appcore.AppCore).HandleMessagesUntilEOF",
		})...)
	case "C09":
		out = append(out, e.spawnDisjoint(prop, []string{
			"(*github.com/goblimey/go-ntrip/file_handler.Handler).Handle",
			"(*github.com/goblimey/go-ntrip/apps/appcore.AppCore).HandleMessagesUntilEOF",
		})...)
	}
	return out
}

// ---------------------------------------------------------------- spawn-disjoint

// spawnDisjoint: after a go statement the spawner does not touch the non-channel
// objects (pointers, maps, slices) it handed to the goroutine.
func (e *Engine) spawnDisjoint(prop string, fns []string) []*Oblig {
	var out []*Oblig
	for _, key := range fns {
		fn := e.fnByKey[key]
		if fn == nil {
			continue
		}
		var problems []string
		nGo := 0
		for _, b := range fn.Blocks {
			for _, ins := range b.Instrs {
				g, ok := ins.(*ssa.Go)
				if !ok {
					continue
				}
				nGo++
				for _, a := range g.Call.Args {
					switch a.Type().Underlying().(type) {
					case *types.Pointer, *types.Map, *types.Slice:
					default:
						continue
					}
					if _, isConst := a.(*ssa.Const); isConst {
						continue
					}
					for _, ref := range *a.Referrers() {
						if ref == ins {
							continue
						}
						if _, dbg := ref.(*ssa.DebugRef); dbg {
							continue
						}
						if ref.Block() == nil {
							continue
						}
						if reachableAfter(g, ref) {
							// sharing is harmless when nobody writes the object: neither the goroutine's
							// cone nor anything the spawner can reach stores into an object of that type
							if pt, isPtr := a.Type().Underlying().(*types.Pointer); isPtr {
								if w := e.storesInto(pt.Elem(), fn, g); w == "" {
									continue
								} else {
									problems = append(problems, fmt.Sprintf("%s: %s uses %s after handing it to the goroutine started at %s, and %s", e.pos(ref), fn.Name(), a.Name(), e.pos(ins), w))
									continue
								}
							}
							problems = append(problems, fmt.Sprintf("%s: %s uses %s after handing it to the goroutine started at %s", e.pos(ref), fn.Name(), a.Name(), e.pos(ins)))
						}
					}
				}
			}
		}
		out = append(out, structOblig("spawn-disjoint/"+shortKey(key), "spawn-disjoint",
			fmt.Sprintf("%s does not touch the objects it hands to the %d goroutine(s) it starts (channels excepted)", shortKey(key), nGo), []string{prop}, problems))
	}
	return out
}

// reachableAfter: instruction b can execute after instruction a (same function).
func reachableAfter(a, b ssa.Instruction) bool {
	if a.Block() == b.Block() {
		after := false
		for _, ins := range a.Block().Instrs {
			if ins == a {
				after = true
				continue
			}
			if ins == b && after {
				return true
			}
		}
	}
	// b's block reachable from a's block via successors (including loops back to a's block)
	seen := map[int]bool{}
	stack := append([]*ssa.BasicBlock(nil), a.Block().Succs...)
	for len(stack) > 0 {
		x := stack[len(stack)-1]
		stack = stack[:len(stack)-1]
		if seen[x.Index] {
			continue
		}
		seen[x.Index] = true
		if x == b.Block() {
			return true
		}
		stack = append(stack, x.Succs...)
	}
	return false
}

// ---------------------------------------------------------------- join

// A completion signal of a goroutine body: a close of / send on a channel, or a
// WaitGroup.Done, that is deferred or is the last effect before every return.
type signal struct {
	kind string    // "chan" or "wg"
	src  ssa.Value // the channel / *WaitGroup as seen inside the goroutine (param, free-var load, ...)
}

func isEffect(ins ssa.Instruction) bool {
	switch x := ins.(type) {
	case *ssa.Call:
		if b, ok := x.Call.Value.(*ssa.Builtin); ok {
			switch b.Name() {
			case "len", "cap", "print", "println":
				return false
			}
		}
		return true
	case *ssa.Store, *ssa.Send, *ssa.MapUpdate, *ssa.Go:
		return true
	}
	return false
}

// lastEffect reports whether ins is executed on every path to a return of fn and
// nothing with an effect can execute after it.
func lastEffect(fn *ssa.Function, ins ssa.Instruction) bool {
	for _, b := range fn.Blocks {
		for _, r := range b.Instrs {
			if _, ok := r.(*ssa.Return); ok && !instrDominates(ins, r) {
				return false
			}
		}
	}
	for _, b := range fn.Blocks {
		for _, other := range b.Instrs {
			if other == ins || !isEffect(other) {
				continue
			}
			if reachableAfter(ins, other) {
				return false
			}
		}
	}
	return true
}

func goroutineSignals(g *ssa.Function) []signal {
	var out []signal
	for _, b := range g.Blocks {
		for _, ins := range b.Instrs {
			var cc *ssa.CallCommon
			deferred := false
			switch x := ins.(type) {
			case *ssa.Call:
				cc = &x.Call
			case *ssa.Defer:
				cc = &x.Call
				deferred = true
			case *ssa.Send:
				if lastEffect(g, ins) {
					out = append(out, signal{"chan", x.Chan})
				}
				continue
			default:
				continue
			}
			if bi, ok := cc.Value.(*ssa.Builtin); ok && bi.Name() == "close" {
				if deferred || lastEffect(g, ins) {
					out = append(out, signal{"chan", cc.Args[0]})
				}
				continue
			}
			if callee := cc.StaticCallee(); callee != nil && callee.Pkg != nil && callee.Pkg.Pkg.Path() == "sync" && callee.Name() == "Done" {
				if deferred || lastEffect(g, ins) {
					out = append(out, signal{"wg", cc.Args[0]})
				}
			}
		}
	}
	return out
}

// originInSpawner maps a value inside goroutine body g (started by goIns) to the
// corresponding value in the spawner: parameters map to call arguments, loads of
// free variables to the captured cell.
func originInSpawner(v ssa.Value, g *ssa.Function, goIns *ssa.Go) (ssa.Value, bool) {
	// strip loads
	viaLoad := false
	if u, ok := v.(*ssa.UnOp); ok && u.Op.String() == "*" {
		v = u.X
		viaLoad = true
	}
	switch x := v.(type) {
	case *ssa.Parameter:
		for i, p := range g.Params {
			if p == x && i < len(goIns.Call.Args) {
				return goIns.Call.Args[i], viaLoad
			}
		}
	case *ssa.FreeVar:
		if mc, ok := goIns.Call.Value.(*ssa.MakeClosure); ok {
			for i, fv := range g.FreeVars {
				if fv == x && i < len(mc.Bindings) {
					return mc.Bindings[i], viaLoad
				}
			}
		}
	}
	return nil, false
}

// waitsFor: the spawner waits on the signal after the go statement on every path to a return.
func waitsFor(f *ssa.Function, goIns *ssa.Go, sig signal, origin ssa.Value, viaLoad bool) bool {
	sameObj := func(v ssa.Value) bool {
		if viaLoad {
			if u, ok := v.(*ssa.UnOp); ok && u.Op.String() == "*" {
				return u.X == origin
			}
			return false
		}
		return v == origin
	}
	for _, b := range f.Blocks {
		for _, ins := range b.Instrs {
			var wait bool
			switch x := ins.(type) {
			case *ssa.UnOp:
				if sig.kind == "chan" && x.Op.String() == "<-" && sameObj(x.X) {
					wait = true
				}
			case *ssa.Call:
				if sig.kind == "wg" {
					if callee := x.Call.StaticCallee(); callee != nil && callee.Pkg != nil && callee.Pkg.Pkg.Path() == "sync" && callee.Name() == "Wait" && len(x.Call.Args) > 0 {
						if x.Call.Args[0] == origin || sameObj(x.Call.Args[0]) {
							wait = true
						}
					}
				}
			}
			if !wait || !reachableAfter(goIns, ins) {
				continue
			}
			// every return reachable after the go statement is dominated by the wait
			ok := true
			for _, rb := range f.Blocks {
				for _, r := range rb.Instrs {
					if _, isRet := r.(*ssa.Return); isRet && reachableAfter(goIns, r) && !instrDominates(ins, r) {
						ok = false
					}
				}
			}
			if ok && sig.kind == "wg" {
				// the counter must have been raised before the goroutine is started: an Add inside the
				// goroutine can run after Wait has already seen zero
				added := false
				for _, ab := range f.Blocks {
					for _, ai := range ab.Instrs {
						if c, isCall := ai.(*ssa.Call); isCall {
							if callee := c.Call.StaticCallee(); callee != nil && callee.Pkg != nil && callee.Pkg.Pkg.Path() == "sync" && callee.Name() == "Add" && len(c.Call.Args) > 0 && (c.Call.Args[0] == origin || sameObj(c.Call.Args[0])) && instrDominates(ai, goIns) {
								added = true
							}
						}
					}
				}
				ok = added
			}
			if ok {
				return true
			}
		}
	}
	return false
}

// joinObligations: every goroutine started by fn has finished its last effect before fn returns.
func (e *Engine) joinObligations(prop string, keys []string) []*Oblig {
	var out []*Oblig
	for _, key := range keys {
		f := e.fnByKey[key]
		if f == nil {
			out = append(out, structOblig("join/"+shortKey(key), "join", "function not found", []string{prop}, []string{"no such function " + key}))
			continue
		}
		var problems []string
		n := 0
		for _, b := range f.Blocks {
			for _, ins := range b.Instrs {
				goIns, ok := ins.(*ssa.Go)
				if !ok {
					continue
				}
				n++
				g := goIns.Call.StaticCallee()
				if g == nil {
					if mc, ok := goIns.Call.Value.(*ssa.MakeClosure); ok {
						g, _ = mc.Fn.(*ssa.Function)
					}
				}
				if g == nil || g.Blocks == nil {
					problems = append(problems, fmt.Sprintf("%s: cannot resolve the goroutine body", e.pos(ins)))
					continue
				}
				joined := false
				for _, sig := range goroutineSignals(g) {
					origin, viaLoad := originInSpawner(sig.src, g, goIns)
					if origin == nil {
						continue
					}
					if waitsFor(f, goIns, sig, origin, viaLoad) {
						joined = true
					}
				}
				if !joined {
					problems = append(problems, fmt.Sprintf("%s: %s returns without waiting for the goroutine %s started here (no receive from a channel the goroutine closes/sends on after its last effect, no WaitGroup.Wait matched by a deferred Done)", e.pos(ins), f.Name(), g.Name()))
				}
			}
		}
		out = append(out, structOblig("join/"+shortKey(key), "join",
			fmt.Sprintf("%s waits, on every path to its return, for the completion signal of each of the %d goroutine(s) it starts, so their output is complete when it returns", shortKey(key), n),
			[]string{prop}, problems))
	}
	return out
}

// storesInto: some function reachable from the spawner or from the spawned goroutine
// stores into an object of struct type t (returns a description, "" if none).
func (e *Engine) storesInto(t types.Type, spawner *ssa.Function, goIns *ssa.Go) string {
	roots := []string{spawner.String()}
	if callee := goIns.Call.StaticCallee(); callee != nil {
		roots = append(roots, callee.String())
	} else if mc, ok := goIns.Call.Value.(*ssa.MakeClosure); ok {
		if f, ok := mc.Fn.(*ssa.Function); ok {
			roots = append(roots, f.String())
		}
	}
	for _, fn := range e.coneOf(roots) {
		for _, b := range fn.Blocks {
			for _, ins := range b.Instrs {
				st, ok := ins.(*ssa.Store)
				if !ok {
					continue
				}
				root := addrRoot(st.Addr)
				if root == st.Addr {
					continue // whole-object store through a plain pointer
				}
				if pt, ok := root.Type().Underlying().(*types.Pointer); ok && types.Identical(pt.Elem(), t) {
					if _, fresh := root.(*ssa.Alloc); fresh {
						continue
					}
					return fmt.Sprintf("%s writes a field of a %s at %s", fn.Name(), t.String(), e.pos(ins))
				}
			}
		}
	}
	return ""
}

// ---------------------------------------------------------------- lock-release

// mutexOp classifies a call of sync.(*Mutex|*RWMutex).{Lock,RLock,Unlock,RUnlock} and returns a
// key for the mutex it is applied to.
func mutexOp(cc *ssa.CallCommon) (op string, key string, ok bool) {
	callee := cc.StaticCallee()
	if callee == nil || callee.Pkg == nil || callee.Pkg.Pkg.Path() != "sync" || len(cc.Args) == 0 {
		return "", "", false
	}
	switch callee.Name() {
	case "Lock", "RLock", "Unlock", "RUnlock":
	default:
		return "", "", false
	}
	recv := cc.Args[0]
	var describe func(v ssa.Value) string
	describe = func(v ssa.Value) string {
		switch x := v.(type) {
		case *ssa.UnOp:
			return "*" + describe(x.X)
		case *ssa.FieldAddr:
			return describe(x.X) + "." + fmt.Sprint(x.Field)
		case *ssa.Parameter, *ssa.FreeVar, *ssa.Global:
			return x.Name()
		}
		return v.Name()
	}
	return callee.Name(), describe(recv), true
}

// lockRelease: every Lock/RLock is released on every path to a return - by a deferred unlock
// registered on that path, or by an explicit unlock - so that the next caller cannot block for good.
func (e *Engine) lockRelease(prop string, fns []*ssa.Function, what string) []*Oblig {
	var problems []string
	nlocks := 0
	for _, fn := range fns {
		for _, b := range fn.Blocks {
			for idx, ins := range b.Instrs {
				c, isCall := ins.(*ssa.Call)
				if !isCall {
					continue
				}
				op, key, ok := mutexOp(&c.Call)
				if !ok || (op != "Lock" && op != "RLock") {
					continue
				}
				nlocks++
				want := "Unlock"
				if op == "RLock" {
					want = "RUnlock"
				}
				// walk forward from the lock; a path ends at an explicit or deferred matching unlock
				type pos struct {
					b *ssa.BasicBlock
					i int
				}
				seen := map[*ssa.BasicBlock]bool{}
				stack := []pos{{b, idx + 1}}
				leaked := false
				for len(stack) > 0 && !leaked {
					p := stack[len(stack)-1]
					stack = stack[:len(stack)-1]
					released := false
					for i := p.i; i < len(p.b.Instrs) && !released; i++ {
						switch x := p.b.Instrs[i].(type) {
						case *ssa.Call:
							if o2, k2, ok2 := mutexOp(&x.Call); ok2 && o2 == want && k2 == key {
								released = true
							}
						case *ssa.Defer:
							if o2, k2, ok2 := mutexOp(&x.Call); ok2 && o2 == want && k2 == key {
								released = true
							}
						case *ssa.Return:
							leaked = true
							released = true
						}
					}
					if released {
						continue
					}
					for _, s := range p.b.Succs {
						if !seen[s] {
							seen[s] = true
							stack = append(stack, pos{s, 0})
						}
					}
				}
				if leaked {
					problems = append(problems, fmt.Sprintf("%s: %s can return while still holding the %s taken here", e.pos(ins), fn.Name(), strings.ToLower(op)))
				}
			}
		}
	}
	return []*Oblig{structOblig("lock-release/"+what, "lock-release",
		fmt.Sprintf("every mutex locked in %s (%d lock sites) is unlocked again, explicitly or by a deferred call, on every path to a return", what, nlocks),
		[]string{prop}, problems)}
}

// ---------------------------------------------------------------- writer-flush

// writerFlush: a bufio.Writer created in a function of the application packages is flushed on
// every path from its creation to a return of that function and to every os.Exit it can reach
// (a deferred Flush does not run when the process exits through os.Exit).
func (e *Engine) writerFlush(prop string, pkgFrag string, what string) []*Oblig {
	var problems []string
	n := 0
	isFlushOf := func(cc *ssa.CallCommon, w ssa.Value) bool {
		c := cc.StaticCallee()
		return c != nil && c.Pkg != nil && c.Pkg.Pkg.Path() == "bufio" && c.Name() == "Flush" && len(cc.Args) > 0 && cc.Args[0] == w
	}
	for _, fn := range e.repoFunctions() {
		if fn.Pkg == nil || !strings.Contains(fn.Pkg.Pkg.Path(), pkgFrag) {
			continue
		}
		for _, b := range fn.Blocks {
			for idx, ins := range b.Instrs {
				c, ok := ins.(*ssa.Call)
				if !ok {
					continue
				}
				callee := c.Call.StaticCallee()
				if callee == nil || callee.Pkg == nil || callee.Pkg.Pkg.Path() != "bufio" || !strings.HasPrefix(callee.Name(), "NewWriter") {
					continue
				}
				n++
				w := ssa.Value(c)
				type pos struct {
					b *ssa.BasicBlock
					i int
				}
				seen := map[*ssa.BasicBlock]bool{}
				stack := []pos{{b, idx + 1}}
				deferred := false
				for len(stack) > 0 {
					p := stack[len(stack)-1]
					stack = stack[:len(stack)-1]
					flushed := false
					for i := p.i; i < len(p.b.Instrs) && !flushed; i++ {
						switch x := p.b.Instrs[i].(type) {
						case *ssa.Call:
							if isFlushOf(&x.Call, w) {
								flushed = true
							} else if c2 := x.Call.StaticCallee(); c2 != nil && c2.Pkg != nil && c2.Pkg.Pkg.Path() == "os" && c2.Name() == "Exit" {
								problems = append(problems, fmt.Sprintf("%s: %s can reach os.Exit with the bufio.Writer created at %s unflushed (deferred calls do not run)", e.pos(x), fn.Name(), e.pos(ins)))
								flushed = true
							}
						case *ssa.Defer:
							if isFlushOf(&x.Call, w) {
								deferred = true
							} else if deferred && isCompletionSignal(&x.Call) {
								// deferred calls run last-in-first-out: a completion signal deferred after the flush is
								// given before the flush runs, so whoever waits for it can go on (and exit) too early
								problems = append(problems, fmt.Sprintf("%s: %s defers a completion signal after deferring the flush of the bufio.Writer created at %s; deferred calls run in reverse order, so the signal is given before the buffered output is written", e.pos(x), fn.Name(), e.pos(ins)))
							}
						case *ssa.Return:
							if !deferred {
								problems = append(problems, fmt.Sprintf("%s: %s can return with the bufio.Writer created at %s unflushed", e.pos(x), fn.Name(), e.pos(ins)))
							}
							flushed = true
						}
					}
					if flushed {
						continue
					}
					for _, s := range p.b.Succs {
						if !seen[s] {
							seen[s] = true
							stack = append(stack, pos{s, 0})
						}
					}
				}
			}
		}
	}
	return []*Oblig{structOblig("writer-flush/"+what, "writer-flush",
		fmt.Sprintf("every bufio.Writer created in %s (%d) is flushed before the function returns or the process exits", what, n),
		[]string{prop}, problems)}
}

// handoverFresh: a buffer handed to the report feed (Record*Buffer keeps the pointer it is given; the
// status page reads it later, under the feed's lock) must not be reused by the relay loop: when the
// hand-over happens in a loop, the buffer variable and the slice stored in it are created in the same
// iteration, not once before the loop.
func (e *Engine) handoverFresh(prop string) []*Oblig {
	var problems []string
	n := 0
	reachable := func(from, to *ssa.BasicBlock) bool {
		seen := map[*ssa.BasicBlock]bool{}
		stack := append([]*ssa.BasicBlock(nil), from.Succs...)
		for len(stack) > 0 {
			b := stack[len(stack)-1]
			stack = stack[:len(stack)-1]
			if seen[b] {
				continue
			}
			seen[b] = true
			if b == to {
				return true
			}
			stack = append(stack, b.Succs...)
		}
		return false
	}
	for _, fn := range e.repoFunctions() {
		if fn.Pkg == nil || !strings.Contains(fn.Pkg.Pkg.Path(), "/apps/proxy") {
			continue
		}
		for _, b := range fn.Blocks {
			for _, ins := range b.Instrs {
				c, ok := ins.(*ssa.Call)
				if !ok {
					continue
				}
				callee := c.Call.StaticCallee()
				if callee == nil || callee.Pkg == nil || !strings.HasSuffix(callee.Pkg.Pkg.Path(), "/reportfeed") || !strings.HasPrefix(callee.Name(), "Record") || !strings.HasSuffix(callee.Name(), "Buffer") || len(c.Call.Args) < 2 {
					continue
				}
				n++
				if !reachable(b, b) {
					continue // not in a loop: handed over once
				}
				var defs []ssa.Instruction
				switch v := c.Call.Args[1].(type) {
				case *ssa.Alloc:
					defs = append(defs, v)
					if v.Referrers() != nil {
						for _, r := range *v.Referrers() {
							if st, ok := r.(*ssa.Store); ok && st.Addr == v {
								if d, ok := st.Val.(ssa.Instruction); ok {
									defs = append(defs, d)
								}
							}
						}
					}
				case ssa.Instruction:
					defs = append(defs, v)
				default:
					problems = append(problems, fmt.Sprintf("%s: %s hands a buffer that is not a local variable to %s in a loop", e.pos(ins), fn.Name(), callee.Name()))
				}
				for _, d := range defs {
					if d.Block() != b && !reachable(b, d.Block()) {
						problems = append(problems, fmt.Sprintf("%s: %s hands the same buffer (created once at %s, before the loop) to %s in every iteration; the report feed keeps the pointer, so the next read overwrites what the status page shows", e.pos(ins), fn.Name(), e.pos(d), callee.Name()))
						break
					}
				}
			}
		}
	}
	return []*Oblig{structOblig("handover-fresh/proxy", "spawn-disjoint",
		fmt.Sprintf("every buffer the relay loops hand to the report feed (%d hand-overs) is created in the iteration that hands it over", n),
		[]string{prop}, problems)}
}

// sinkDistinct: the daily log files an application opens have distinct names unless they are opened on
// the same directory setting - two dailylogger.New calls with the same constant prefix and suffix but
// different directory expressions write to one file as soon as the two directories coincide (a record
// that must hold exactly the input would then also receive the other log's lines).
func (e *Engine) sinkDistinct(prop string, pkgFrag string, what string) []*Oblig {
	type sink struct {
		pos, dir, name string
	}
	var sinks []sink
	var problems []string
	constStr := func(v ssa.Value) (string, bool) {
		if c, ok := v.(*ssa.Const); ok && c.Value != nil && c.Value.Kind() == constant.String {
			return constant.StringVal(c.Value), true
		}
		return "", false
	}
	dirOf := func(v ssa.Value) string {
		if u, ok := v.(*ssa.UnOp); ok && u.Op.String() == "*" {
			if fa, ok := u.X.(*ssa.FieldAddr); ok {
				if st, ok := derefType(fa.X.Type()).Underlying().(*types.Struct); ok {
					return "field " + st.Field(fa.Field).Name()
				}
			}
		}
		if s, ok := constStr(v); ok {
			return "constant " + s
		}
		return "expression " + v.Name() + " in " + v.Parent().Name()
	}
	for _, fn := range e.repoFunctions() {
		if fn.Pkg == nil || !strings.Contains(fn.Pkg.Pkg.Path(), pkgFrag) {
			continue
		}
		for _, b := range fn.Blocks {
			for _, ins := range b.Instrs {
				c, ok := ins.(*ssa.Call)
				if !ok {
					continue
				}
				callee := c.Call.StaticCallee()
				if callee == nil || callee.Pkg == nil || !strings.HasSuffix(callee.Pkg.Pkg.Path(), "/dailylogger") || callee.Name() != "New" || len(c.Call.Args) != 3 {
					continue
				}
				pre, ok1 := constStr(c.Call.Args[1])
				suf, ok2 := constStr(c.Call.Args[2])
				if !ok1 || !ok2 {
					problems = append(problems, fmt.Sprintf("%s: %s opens a daily log whose file name is not a constant pattern", e.pos(ins), fn.Name()))
					continue
				}
				sinks = append(sinks, sink{e.pos(ins), dirOf(c.Call.Args[0]), pre + "<date>" + suf})
			}
		}
	}
	for i := range sinks {
		for j := i + 1; j < len(sinks); j++ {
			if sinks[i].name == sinks[j].name && sinks[i].dir != sinks[j].dir {
				problems = append(problems, fmt.Sprintf("%s and %s: two daily logs named %s are opened on different directory settings (%s, %s); they are one file whenever the two settings name the same directory", sinks[i].pos, sinks[j].pos, sinks[i].name, sinks[i].dir, sinks[j].dir))
			}
		}
	}
	return []*Oblig{structOblig("sink-distinct/"+what, "spawn-disjoint",
		fmt.Sprintf("the daily log files %s opens (%d) have distinct names unless opened on the same directory setting", what, len(sinks)),
		[]string{prop}, problems)}
}

// isCompletionSignal: close(ch) or (*sync.WaitGroup).Done - what a goroutine does to tell its
// joiner that it has finished.
func isCompletionSignal(cc *ssa.CallCommon) bool {
	if b, ok := cc.Value.(*ssa.Builtin); ok && b.Name() == "close" {
		return true
	}
	if c := cc.StaticCallee(); c != nil && c.Pkg != nil && c.Pkg.Pkg.Path() == "sync" && c.Name() == "Done" {
		return true
	}
	return false
}

// ---------------------------------------------------------------- config-mapping

// configMapping: where a main-like function builds one configuration struct from another
// (the user's file -> the configuration handed to the stages), a value loaded from field X of the
// source is not stored into a differently named field of the target when the target has a field X
// of its own.  (The stages are verified for the configuration they are given; this is the link
// between that configuration and the user's.)
func (e *Engine) configMapping(prop string, pkgFrag string, what string) []*Oblig {
	var problems []string
	n := 0
	for _, fn := range e.repoFunctions() {
		if fn.Pkg == nil || !strings.Contains(fn.Pkg.Pkg.Path(), pkgFrag) {
			continue
		}
		for _, b := range fn.Blocks {
			for _, ins := range b.Instrs {
				st, ok := ins.(*ssa.Store)
				if !ok {
					continue
				}
				dst, ok := st.Addr.(*ssa.FieldAddr)
				if !ok {
					continue
				}
				if _, fresh := dst.X.(*ssa.Alloc); !fresh {
					continue
				}
				dT, ok := derefType(dst.X.Type()).Underlying().(*types.Struct)
				if !ok || !strings.Contains(strings.ToLower(derefType(dst.X.Type()).String()), "config") {
					continue
				}
				ld, ok := st.Val.(*ssa.UnOp)
				if !ok || ld.Op.String() != "*" {
					continue
				}
				src, ok := ld.X.(*ssa.FieldAddr)
				if !ok {
					continue
				}
				sT, ok := derefType(src.X.Type()).Underlying().(*types.Struct)
				if !ok {
					continue
				}
				n++
				dName, sName := dT.Field(dst.Field).Name(), sT.Field(src.Field).Name()
				if dName == sName {
					continue
				}
				for i := 0; i < dT.NumFields(); i++ {
					if dT.Field(i).Name() == sName && types.Identical(dT.Field(i).Type(), sT.Field(src.Field).Type()) {
						problems = append(problems, fmt.Sprintf("%s: %s stores %s of the source configuration into %s, although the target has a field %s of its own", e.pos(ins), fn.Name(), sName, dName, sName))
					}
				}
			}
		}
	}
	return []*Oblig{structOblig("config-mapping/"+what, "config-mapping",
		fmt.Sprintf("where %s copies one configuration struct into another (%d field copies), a field is not filled from a differently named field that the target also has", what, n),
		[]string{prop}, problems)}
}
