package main

// Structural obligations of the pipeline properties (goroutines, joins, locks).

func (e *Engine) pipelineObligations(prop string) []*Oblig {
	return nil
}
