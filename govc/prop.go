package main

import (
	"time"
)

func (e *Engine) verifyFunctionFor(key, prop string) (*Unit, error) {
	pendingProp = prop
	return e.verifyFunction(key)
}

var pendingProp string

func runProperty(eng *Engine, prop, tier string, opts solveOpts, evidence, replayDir, known string, verbose bool, start time.Time) int {
	return 2
}
