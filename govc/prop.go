package main

import (
	"encoding/json"
	"fmt"
	"os"
	"path/filepath"
	"sort"
	"strings"
	"time"
)

var pendingProp string

func (e *Engine) verifyFunctionFor(key, prop string) (*Unit, error) {
	pendingProp = prop
	return e.verifyFunction(key)
}

var safetyKinds = map[string]bool{
	"index": true, "nil-deref": true, "slice-bounds": true, "div-zero": true, "shift-count": true,
	"type-assert": true, "nil-map-write": true, "makeslice": true, "no-panic": true, "nil-chan": true,
	"send-closed": true, "decreases": true, "termination": true,
}

// propertyRoots: functions that carry a clause tagged with the property.
func (e *Engine) propertyRoots(prop string) []string {
	var out []string
	for _, k := range e.lib.sortedContractKeys() {
		ct := e.lib.Contracts[k]
		if ct.Trusted || strings.HasPrefix(k, "invoke ") {
			continue
		}
		tagged := false
		chk := func(cs []*Clause) {
			for _, c := range cs {
				if contains(c.Props, prop) {
					tagged = true
				}
				for _, d := range propDeps[prop] {
					if contains(c.Props, d) {
						tagged = true
					}
				}
			}
		}
		chk(ct.Ensures)
		// (a tagged precondition alone does not make a function a root: it is an obligation of
		// the callers; the function is verified under the property when it promises something)
		for _, ac := range ct.AtCalls {
			chk([]*Clause{ac.Clause})
		}
		for _, l := range ct.Loops {
			chk(l.Invs)
		}
		if tagged {
			out = append(out, k)
		}
	}
	for tk, ts := range e.lib.Types {
		for _, inv := range ts.Invs {
			if contains(inv.Props, prop) {
				// all pointer-receiver methods of the type with contracts
				for _, k := range e.lib.sortedContractKeys() {
					if strings.HasPrefix(k, "(*"+tk+")") && !contains(out, k) {
						out = append(out, k)
					}
				}
			}
		}
	}
	// package initialisers whose global clauses serve the property
	for _, g := range e.lib.Globals {
		act := len(g.Clause.Props) == 0 || contains(g.Clause.Props, prop)
		for _, d := range propDeps[prop] {
			if contains(g.Clause.Props, d) {
				act = true
			}
		}
		if act && len(g.Clause.Props) > 0 {
			k := g.Pkg + ".init"
			if !contains(out, k) {
				out = append(out, k)
			}
		}
	}
	if extra, ok := extraRoots[prop]; ok {
		for _, k := range extra {
			if !contains(out, k) {
				out = append(out, k)
			}
		}
	}
	if prop == "C07" {
		var lib []string
		for _, k := range out {
			if inRtcm(k) {
				lib = append(lib, k)
			}
		}
		out = lib
	}
	sort.Strings(out)
	return out
}

// propertyRootsExact: functions with a clause tagged exactly with the given (group) tag.
func (e *Engine) propertyRootsExact(tag string) []string {
	var out []string
	for _, k := range e.lib.sortedContractKeys() {
		ct := e.lib.Contracts[k]
		if ct.Trusted {
			continue
		}
		tagged := false
		for _, c := range ct.Ensures {
			if contains(c.Props, tag) {
				tagged = true
			}
		}
		for _, l := range ct.Loops {
			for _, c := range l.Invs {
				if contains(c.Props, tag) {
					tagged = true
				}
			}
		}
		if tagged {
			out = append(out, k)
		}
	}
	return out
}

// propGroups: secondary proof groups of a property.  Clauses tagged with a group
// name are proved in a separate run in which they (and the property's own
// clauses) are available as hypotheses; the property's main run does not see them.
// This keeps quantifier-heavy auxiliary invariants from polluting the other proofs.
var propGroups = map[string][]string{
	"C04": {"C04b"},
}

// Safety obligations (no panic, no out-of-range access, termination measures) are
// decided once per function.  For the library (packages under rtcm/) that is C07,
// whose entry points are the ones the property names.  The application stages
// (apps/*, file_handler, jsonconfig) are outside C07's cone - the library does not
// call them - and the facts their safety rests on (channels open, queues allocated,
// configuration present) are the invariants of the pipeline properties, so their
// safety obligations are decided under every pipeline property whose cone contains
// the function.
var pipelineProps = map[string]bool{"C09": true, "C10": true, "C11": true, "C13": true, "C16": true, "C18": true, "C19": true}

func inRtcm(fnKey string) bool { return strings.Contains(fnKey, "/rtcm/") }

func safetyOwner(prop, fnKey string) bool {
	if inRtcm(fnKey) {
		return prop == "C07" || contains(propSupport[prop], "C07") // total correctness inside the cone of every library property
	}
	return pipelineProps[prop]
}

// extraRoots: whole-cone properties list their entry points explicitly (filled by property definitions).
var extraRoots = map[string][]string{
	// C07: the entry points named by the property (stream handler, single-frame decoding,
	// full decoding, display); everything they reach follows through the call graph.
	"C07": {
		"(*github.com/goblimey/go-ntrip/rtcm/handler.Handler).HandleMessages",
		"(*github.com/goblimey/go-ntrip/rtcm/handler.Handler).GetMessage",
		"github.com/goblimey/go-ntrip/rtcm/handler.Analyse",
		"github.com/goblimey/go-ntrip/rtcm/handler.PrepareForDisplay",
		"(*github.com/goblimey/go-ntrip/rtcm/handler.Message).String",
	},
}

func init() {
	// C19: the proxy's parser goroutine (started in an uncontracted main) must survive every input
	extraRoots["C19"] = []string{"(*github.com/goblimey/go-ntrip/rtcm/handler.Handler).HandleMessages"}
	// C15 (determinism, no hidden state) ranges over the same cone as C07
	extraRoots["C15"] = extraRoots["C07"]
}

type Finding struct {
	Prop  string
	Oblig string // obligation name prefix (without the #n) or full name
	Text  string
	Fixed bool
}

func loadKnown(path string) []Finding {
	data, err := os.ReadFile(path)
	if err != nil {
		return nil
	}
	var out []Finding
	for _, line := range strings.Split(string(data), "\n") {
		line = strings.TrimSpace(line)
		if line == "" || strings.HasPrefix(line, "#") {
			continue
		}
		f := Finding{}
		if strings.HasPrefix(line, "fixed:") {
			f.Fixed = true
			line = strings.TrimSpace(strings.TrimPrefix(line, "fixed:"))
		} else if strings.HasPrefix(line, "known:") {
			line = strings.TrimSpace(strings.TrimPrefix(line, "known:"))
		}
		// property=<id> obligation=<name> <text>
		for _, fld := range strings.Fields(line) {
			if strings.HasPrefix(fld, "property=") {
				f.Prop = strings.TrimPrefix(fld, "property=")
			} else if strings.HasPrefix(fld, "obligation=") {
				f.Oblig = strings.TrimPrefix(fld, "obligation=")
			}
		}
		f.Text = line
		out = append(out, f)
	}
	return out
}

type sample struct {
	Name   string `json:"obligation"`
	Kind   string `json:"kind"`
	Clause string `json:"clause"`
	Where  string `json:"where,omitempty"`
	Result string `json:"answer"`
	Solver string `json:"solver"`
	Ms     int64  `json:"ms"`
	Bytes  int    `json:"smt_bytes,omitempty"`
}

func runProperty(eng *Engine, prop, tier string, opts solveOpts, evidence, replayDir, known string, verbose bool, start time.Time) int {
	roots := eng.propertyRoots(prop)
	structural := eng.structuralObligations(prop)
	if len(roots) == 0 && len(structural) == 0 {
		fmt.Fprintf(os.Stderr, "govc: no contract clause is tagged with %s\n", prop)
		return 2
	}
	var obls []*Oblig
	assumed := map[string]bool{}
	inlined := map[string]bool{}
	modes := map[string]string{}
	var order []string
	var loadErr []string
	lemmaUse := map[string]bool{}
	groups := append([]string{prop}, propGroups[prop]...)
	for gi, grp := range groups {
	gprop := grp
	groupRoots := roots
	if gi > 0 {
		groupRoots = eng.propertyRootsExact(grp)
	}
	units := map[string]*Unit{}
	var gorder []string
	work := append([]string(nil), groupRoots...)
	// bit-vector mode functions whose int-mode exports are used: their own (C14) contract is part of the cone
	bvProp := map[string]string{}
	for len(work) > 0 {
		k := work[0]
		work = work[1:]
		if _, done := units[k]; done {
			continue
		}
		p := gprop
		if bp, ok := bvProp[k]; ok {
			p = bp
		}
		if gi > 0 && p != gprop {
			continue // already covered by the main group
		}
		u, err := eng.verifyFunctionFor(k, p)
		if err != nil {
			loadErr = append(loadErr, err.Error())
			units[k] = nil
			continue
		}
		units[k] = u
		gorder = append(gorder, k)
		for _, c := range sortedKeys(u.called) {
			if _, done := units[c]; !done {
				work = append(work, c)
			}
		}
		for _, c := range sortedKeys(u.bvCallees) {
			if _, done := units[c]; !done {
				bvProp[c] = "C14"
				work = append(work, c)
			} else if units[c] != nil && units[c].prop != "C14" && prop != "C14" {
				// verified earlier as an ordinary callee: redo with its own contract active
				delete(units, c)
				for i, o := range gorder {
					if o == c {
						gorder = append(gorder[:i], gorder[i+1:]...)
						break
					}
				}
				bvProp[c] = "C14"
				work = append(work, c)
			}
		}
		for _, gp := range sortedKeys(u.globalsUsed) {
			if _, done := units[gp+".init"]; !done {
				work = append(work, gp+".init")
			}
		}
	}
	if len(loadErr) > 0 {
		for _, e := range loadErr {
			fmt.Fprintln(os.Stderr, "govc: contract error:", e)
		}
		// a contract that no longer binds/evaluates against the code is an undischarged obligation
	}
	for _, k := range gorder {
		u := units[k]
		if gi == 0 {
			order = append(order, k)
		}
		mode := "int"
		if u.so.bv {
			mode = "bv"
		}
		modes[shortKey(k)] = mode
		for a := range u.assumed {
			assumed[a] = true
		}
		for l := range u.lemmasUsed {
			lemmaUse[l] = true
		}
		for a := range u.inlined {
			inlined[shortKey(a)] = true
		}
		for _, o := range u.obls {
			if safetyKinds[o.Kind] && !safetyOwner(prop, k) && !(o.Kind == "decreases" && contains(o.Props, prop)) {
				continue
			}
			if o.Kind == "close-once" && !(safetyOwner(prop, k) || (inRtcm(k) && (prop == "C02" || prop == "C09"))) {
				continue
			}
			if !u.active(o.Props) {
				continue
			}
			if gi > 0 && !contains(o.Props, gprop) {
				continue // secondary proof group: only its own clauses
			}
			if gi > 0 {
				o.Name = o.Name + "@" + gprop
			}
			obls = append(obls, o)
		}
	}
	}
	obls = append(obls, structural...)
	obls = append(obls, eng.bridgeObligations(prop)...)
	// lemmas instantiated by any unit are proved once per run (and may pull in earlier lemmas)
	{
		used := lemmaUse
		for changed := true; changed; {
			changed = false
			for _, ax := range eng.lib.Axioms {
				if !ax.Lemma || !used[ax.Name] || used["done:"+ax.Name] {
					continue
				}
				used["done:"+ax.Name] = true
				o := eng.lemmaObligation(ax, prop)
				for l := range o.Unit.lemmasUsed {
					if !used[l] {
						used[l] = true
						changed = true
					}
				}
				obls = append(obls, o)
			}
		}
	}
	dischargeAll(obls, opts)

	// verdicts
	findings := loadKnown(known)
	var failed []*Oblig
	kindCount := map[string]int{}
	solverWins := map[string]int{}
	var solverMs int64
	discharged := 0
	vacuity := map[string]string{}
	for _, o := range obls {
		kindCount[o.Kind]++
		solverMs += o.Ms
		if o.ok() {
			discharged++
			solverWins[o.Solver]++
		} else {
			failed = append(failed, o)
		}
		if o.ExpectSat {
			vacuity[o.Name] = o.Result
		}
	}
	exit := 0
	os.RemoveAll(filepath.Join(replayDir, prop))
	os.MkdirAll(filepath.Join(replayDir, prop), 0o755)
	var violationLines []string
	nKnown := 0
	for _, ce := range loadErr {
		path := filepath.Join(replayDir, prop, "contract-error.json")
		writeJSON(path, map[string]interface{}{"property": prop, "obligation": "contract-binding", "error": ce,
			"explanation": "a contract no longer binds to or evaluates against the code; its obligations are undischarged"})
		violationLines = append(violationLines, fmt.Sprintf("VIOLATION property=%s replay=%s no-failing-input-found", prop, path))
		exit = 1
	}
	for _, o := range failed {
		isKnown := false
		for _, f := range findings {
			if !f.Fixed && f.Prop == prop && (f.Oblig == o.Name || strings.HasPrefix(o.Name, f.Oblig+"#") || f.Oblig == baseName(o.Name)) {
				fmt.Printf("KNOWN-FINDING: property=%s obligation=%s %s\n", prop, o.Name, f.Text)
				isKnown = true
				nKnown++
			}
		}
		if isKnown {
			continue
		}
		path := filepath.Join(replayDir, prop, mangle(o.Name)+".json")
		rep := map[string]interface{}{
			"property": prop, "obligation": o.Name, "kind": o.Kind, "function": o.Fn, "clause": o.Clause, "where": o.Pos,
			"answer": o.Result, "solver": o.Solver, "solver_output": trunc2(o.Model, 6000), "detail": o.Detail,
		}
		if !o.Structural {
			q := o.query(opts.timeoutSec)
			smtPath := filepath.Join(replayDir, prop, mangle(o.Name)+".smt2")
			os.WriteFile(smtPath, []byte(q), 0o644)
			rep["smt_file"] = smtPath
		}
		found := eng.tryReplay(prop, o, rep, replayDir)
		writeJSON(path, rep)
		if found {
			violationLines = append(violationLines, fmt.Sprintf("VIOLATION property=%s replay=%s", prop, path))
		} else {
			violationLines = append(violationLines, fmt.Sprintf("VIOLATION property=%s replay=%s no-failing-input-found", prop, path))
		}
		exit = 1
	}
	// bounded checks of modelling assumptions on the real code, run on every check of the property
	// (stated bound, never counted as proof)
	var standInNotes []string
	if si, ok := boundedStandIns[prop]; ok {
		work, _ := os.MkdirTemp("", "govc-standin-")
		rep := map[string]interface{}{"property": prop, "obligation": "bounded-check/" + si.what, "kind": "bounded"}
		if eng.runOracle(prop, filepath.Join("/verif/oracle", si.file), nil, rep, work) {
			path := filepath.Join(replayDir, prop, "bounded_stand_in.json")
			writeJSON(path, rep)
			fmt.Printf("FAILED bounded-check/%s [violated oracle] :: %s\n", si.what, si.note)
			violationLines = append(violationLines, fmt.Sprintf("VIOLATION property=%s replay=%s", prop, path))
			exit = 1
			standInNotes = append(standInNotes, "bounded: "+si.note+" - VIOLATED on this tree")
		} else if rep["oracle_unbuildable"] == true {
			standInNotes = append(standInNotes, "bounded: "+si.note+" - COULD NOT BE RUN on this tree (the harness does not build against it); the assumptions are not cross-checked in this run")
			fmt.Printf("NOTE bounded-check/%s could not be run on this tree (harness does not build)\n", si.what)
		} else {
			standInNotes = append(standInNotes, "bounded: "+si.note+" - passed on this tree")
		}
		os.RemoveAll(work)
	}
	// thorough tier: cross-validation of contracts and engine against the running code.  With
	// every obligation discharged, the property's executable oracle (several seeds) and the kept
	// demonstration tests are run against the tree; a failing input found here is a violation
	// the proof missed (a wrong assumption, a modelling error or a hole in a contract), and is
	// reported as such.  This part is a bounded search, never counted as proof.
	var crossNotes []string
	if tier == "thorough" && exit == 0 {
		work, _ := os.MkdirTemp("", "govc-cross-")
		ran := 0
		for _, f := range oracleFiles(prop) {
			oracle := filepath.Join("/verif/oracle", f)
			if _, err := os.Stat(oracle); err != nil {
				continue
			}
			for seed := 1; seed <= 3; seed++ {
				os.Setenv("VERIF_SEED", fmt.Sprint(seed))
				rep := map[string]interface{}{"property": prop, "obligation": "cross-validation/oracle", "kind": "oracle"}
				ran++
				if eng.runOracle(prop, oracle, nil, rep, work) {
					path := filepath.Join(replayDir, prop, "cross_validation_oracle.json")
					writeJSON(path, rep)
					violationLines = append(violationLines, fmt.Sprintf("VIOLATION property=%s replay=%s", prop, path))
					exit = 1
					break
				}
			}
		}
		demos, _ := filepath.Glob("/verif/seeded/" + prop + "-*/demo_test.go")
		for _, d := range demos {
			rep := map[string]interface{}{"property": prop, "obligation": "cross-validation/demonstration", "kind": "oracle"}
			ran++
			if eng.runDemo(prop, d, rep, work) {
				path := filepath.Join(replayDir, prop, "cross_validation_demo.json")
				writeJSON(path, rep)
				violationLines = append(violationLines, fmt.Sprintf("VIOLATION property=%s replay=%s", prop, path))
				exit = 1
			}
		}
		os.RemoveAll(work)
		crossNotes = append(crossNotes, fmt.Sprintf("bounded: cross-validation on the real code - %d runs of the property's oracle (seeds 1..3) and kept demonstration tests, all in agreement with the proof: %v", ran, exit == 0))
	}
	wall := time.Since(start).Seconds()

	// evidence
	var samples []sample
	pick := func(o *Oblig) {
		s := sample{Name: o.Name, Kind: o.Kind, Clause: trunc(o.Clause, 300), Where: o.Pos, Result: o.Result, Solver: o.Solver, Ms: o.Ms}
		if !o.Structural {
			s.Bytes = len(o.query(opts.timeoutSec))
		}
		samples = append(samples, s)
	}
	seenKinds := map[string]bool{}
	for _, o := range obls {
		if len(o.Props) > 0 && !seenKinds["tag:"+o.Kind] && len(samples) < 4 {
			seenKinds["tag:"+o.Kind] = true
			pick(o)
		}
	}
	for _, o := range obls {
		if !seenKinds[o.Kind] && len(samples) < 8 {
			seenKinds[o.Kind] = true
			pick(o)
		}
	}
	var slow []sample
	sorted := append([]*Oblig(nil), obls...)
	sort.Slice(sorted, func(i, j int) bool { return sorted[i].Ms > sorted[j].Ms })
	for i := 0; i < len(sorted) && i < 3; i++ {
		o := sorted[i]
		slow = append(slow, sample{Name: o.Name, Kind: o.Kind, Clause: trunc(o.Clause, 120), Result: o.Result, Solver: o.Solver, Ms: o.Ms})
	}
	var fns []string
	for _, k := range order {
		fns = append(fns, shortKey(k))
	}
	var failedNames []string
	for _, o := range failed {
		failedNames = append(failedNames, o.Name+" ["+o.Result+"]")
	}
	trusted := []string{
		"govc VC generator (this repository, /verif/govc) over golang.org/x/tools/go/ssa v0.29.0",
		"SMT solvers z3 4.8.12, z3 5.1.0 (z3-new), cvc5 1.0.x: first definite answer wins (thorough tier: all answers must agree)",
		"64-bit int/uint (amd64/arm64); Go 1.23 SSA semantics",
	}
	var assumedList []string
	for _, a := range sortedKeys(assumed) {
		assumedList = append(assumedList, a)
	}
	// preconditions are assumed at function entry and are obligations of the call sites that are
	// under contract; for an entry point (no caller under contract) they are hypotheses of the result
	{
		seenPre := map[string]bool{}
		for _, k := range order {
			ct := eng.lib.Contracts[k]
			if ct == nil {
				continue
			}
			probe := &Unit{prop: prop}
			for _, rq := range ct.Requires {
				if probe.active(rq.Props) || contains(rq.Props, "C07") {
					t := "precondition of " + shortKey(k) + " (assumed at entry, checked at call sites under contract): " + trunc(rq.Text, 200)
					if !seenPre[t] {
						seenPre[t] = true
						assumedList = append(assumedList, t)
					}
				}
			}
		}
	}
	assumedList = append(assumedList, eng.renamed...)
	assumedList = append(assumedList, propertyAssumptions[prop]...)
	assumedList = append(assumedList,
		"functional clauses are partial-correctness statements; the safety obligations (no panic, no out-of-range access, channel misuse) of the library functions in this cone are part of this check (see obligations_by_kind), those of functions outside it are decided under C07 (library) or the pipeline properties (applications); loop termination measures are decided under C07 and, for the week computation, under C06/C17",
		"machine integers are treated as mathematical integers only after a no-wrap obligation has been discharged for the operation (int mode); bv-mode functions use exact bit-vector semantics")
	cov := map[string]interface{}{
		"obligations":           len(obls),
		"discharged":            discharged,
		"checker_cmd":           fmt.Sprintf("/verif/bin/check %s %s", prop, tier),
		"trusted_base":          trusted,
		"functions_under_contract": fns,
		"functions_inlined":     sortedKeys(inlined),
		"arithmetic_mode":       modes,
		"obligations_by_kind":   kindCount,
		"solver_wins":           solverWins,
		"solver_time_ms":        solverMs,
		"slowest":               slow,
		"samples":               samples,
		"vacuity_checks":        vacuity,
		"failed":                failedNames,
		"known_findings_matched": nKnown,
		"contract_files":        eng.lib.Files,
		"bounded":               append(append(append([]string(nil), boundedNotes[prop]...), standInNotes...), crossNotes...),
	}
	ev := map[string]interface{}{
		"property_id": prop,
		"tier":        tier,
		"seed":        seedFromEnv(),
		"level":       "proof",
		"coverage":    cov,
		"assumptions": assumedList,
		"wall_s":      wall,
		"violations":  len(violationLines),
	}
	if evidence != "" {
		os.MkdirAll(filepath.Dir(evidence), 0o755)
		writeJSON(evidence, ev)
	}
	if verbose || exit != 0 {
		for _, o := range failed {
			fmt.Printf("FAILED %s [%s %s] %s :: %s\n", o.Name, o.Result, o.Solver, o.Pos, trunc(o.Clause, 160))
		}
	}
	fmt.Printf("%s %s: %d obligations, %d discharged, %d functions under contract, %.1fs\n", prop, tier, len(obls), discharged, len(order), wall)
	for _, l := range violationLines {
		fmt.Println(l)
	}
	return exit
}

func baseName(n string) string {
	if i := strings.LastIndex(n, "#"); i >= 0 {
		return n[:i]
	}
	return n
}

func trunc2(s string, n int) string {
	if len(s) > n {
		return s[:n] + "...[truncated]"
	}
	return s
}

func writeJSON(path string, v interface{}) {
	data, _ := json.MarshalIndent(v, "", " ")
	os.WriteFile(path, append(data, '\n'), 0o644)
}

func seedFromEnv() int {
	var s int
	fmt.Sscanf(os.Getenv("VERIF_SEED"), "%d", &s)
	return s
}

// per-property notes
var propertyAssumptions = map[string][]string{}
var boundedNotes = map[string][]string{}

type standIn struct{ file, what, note string }

// boundedStandIns: executable checks that accompany assumptions the proofs rest on.  No function
// of the repository carries an assumed contract any more; the one entry cross-checks, on the
// real code, the two assumptions behind the proof of getKeysInAscendingOrder (the semantics of
// `range` over a map and the contract of sort.Ints).
var boundedStandIns = map[string]standIn{
	"C18": {"C18.go.txt", "map-range+sort.Ints",
		"the model of `range` over a map and the assumed contract of sort.Ints, on which the proof of (*CircularQueue).getKeysInAscendingOrder rests, are cross-checked on the real function (keys complete, distinct, ascending) for every subset of a 7-key universe, and Add/GetMessages are compared with a reference model for capacities 1..6 up to 3*capacity+2 additions and under one adder and three readers (20000 additions)"},
}
