package main

import (
	"bytes"
	"context"
	"fmt"
	"os"
	"os/exec"
	"path/filepath"
	"strings"
	"sync"
	"time"
)

type solverSpec struct {
	name string
	args func(file string, timeoutSec int) []string
}

var solvers = []solverSpec{
	{"z3-new", func(f string, t int) []string { return []string{"z3-new", fmt.Sprintf("-T:%d", t), f} }},
	{"z3", func(f string, t int) []string { return []string{"z3", fmt.Sprintf("-T:%d", t), f} }},
	{"z3-new-mf", func(f string, t int) []string {
		return []string{"z3-new", fmt.Sprintf("-T:%d", t), "smt.macro_finder=true", f}
	}},
	{"cvc5", func(f string, t int) []string {
		return []string{"cvc5", fmt.Sprintf("--tlimit=%d", t*1000), f}
	}},
}

type solveOpts struct {
	timeoutSec int
	workDir    string
	allAgree   bool // thorough: every solver that answers must agree
	keep       bool
	par        int
	only       string // run just this solver (fast pass)
}

type solverAnswer struct {
	solver string
	result string
	out    string
	ms     int64
}

func runSolver(ctx context.Context, sp solverSpec, file string, timeoutSec int) solverAnswer {
	args := sp.args(file, timeoutSec)
	start := time.Now()
	cctx, cancel := context.WithTimeout(ctx, time.Duration(timeoutSec+2)*time.Second)
	defer cancel()
	cmd := exec.CommandContext(cctx, args[0], args[1:]...)
	var out bytes.Buffer
	cmd.Stdout = &out
	cmd.Stderr = &out
	cmd.Run()
	ms := time.Since(start).Milliseconds()
	text := out.String()
	first := strings.TrimSpace(strings.SplitN(text, "\n", 2)[0])
	res := "error"
	switch {
	case first == "unsat":
		res = "unsat"
	case first == "sat":
		res = "sat"
	case first == "unknown":
		res = "unknown"
	case strings.Contains(first, "timeout") || cctx.Err() != nil:
		res = "timeout"
	case strings.Contains(text, "interrupted") || strings.Contains(text, "time limit"):
		res = "timeout"
	}
	if ctx.Err() != nil && res != "sat" && res != "unsat" {
		res = "cancelled"
	}
	return solverAnswer{sp.name, res, text, ms}
}

// discharge runs one obligation on the solver portfolio.
func discharge(o *Oblig, opts solveOpts) {
	if o.Structural {
		return
	}
	q := o.query(opts.timeoutSec)
	if strings.TrimSpace(o.Goal) == "true" && !o.ExpectSat && o.Raw == "" {
		o.Result, o.Solver = "unsat", "trivial"
		return
	}
	if o.Raw == "" {
		q += "(get-model)\n"
	}
	fname := filepath.Join(opts.workDir, mangle(o.Name)+".smt2")
	if err := os.WriteFile(fname, []byte(q), 0o644); err != nil {
		o.Result = "error"
		o.Detail = err.Error()
		return
	}
	ctx, cancel := context.WithCancel(context.Background())
	defer cancel()
	active := solvers
	if opts.only != "" {
		active = nil
		for _, sp := range solvers {
			if sp.name == opts.only {
				active = append(active, sp)
			}
		}
	}
	ch := make(chan solverAnswer, len(active))
	to := opts.timeoutSec
	if o.ExpectSat && to > 3 {
		to = 3
	}
	for _, sp := range active {
		go func(sp solverSpec) { ch <- runSolver(ctx, sp, fname, to) }(sp)
	}
	var answers []solverAnswer
	var definite *solverAnswer
	for range active {
		a := <-ch
		answers = append(answers, a)
		if a.result == "sat" || a.result == "unsat" {
			if definite == nil {
				aa := a
				definite = &aa
				if !opts.allAgree {
					cancel()
				} else {
					// thorough tier: the other solvers get a grace period to agree or disagree
					go func() {
						time.Sleep(10 * time.Second)
						cancel()
					}()
				}
			} else if definite.result != a.result {
				o.Result = "error"
				o.Detail = fmt.Sprintf("solver disagreement: %s says %s, %s says %s", definite.solver, definite.result, a.solver, a.result)
				return
			}
		}
	}
	if definite != nil {
		o.Result, o.Solver, o.Ms = definite.result, definite.solver, definite.ms
		if definite.result == "sat" {
			o.Model = definite.out
		}
		if opts.allAgree {
			var ds []string
			for _, a := range answers {
				ds = append(ds, a.solver+"="+a.result)
			}
			o.Detail = strings.TrimSpace(o.Detail + " " + strings.Join(ds, ","))
		}
	} else {
		// no definite answer
		res := "unknown"
		allTimeout := true
		var outs []string
		for _, a := range answers {
			if a.result != "timeout" {
				allTimeout = false
			}
			outs = append(outs, a.solver+": "+a.result+" "+trunc(a.out, 200))
		}
		if allTimeout {
			res = "timeout"
		}
		o.Result = res
		o.Model = strings.Join(outs, "\n")
		var mx int64
		for _, a := range answers {
			if a.ms > mx {
				mx = a.ms
			}
		}
		o.Ms = mx
	}
	if !opts.keep && o.ok() {
		os.Remove(fname)
	}
}

func (o *Oblig) ok() bool {
	if o.Structural {
		return o.Result == "ok"
	}
	if o.ExpectSat {
		// vacuity guard: only a refutation (unsat) shows the assumptions are contradictory;
		// quantified assumptions often leave the solver at "unknown"
		return o.Result == "sat" || o.Result == "unknown" || o.Result == "timeout"
	}
	return o.Result == "unsat"
}

// dischargeAll works in two stages: a fast pass with one solver and a short
// timeout on all cores, then the full portfolio race with the full timeout on
// what is left (few obligations at a time, so that the solvers get whole cores).
func dischargeAll(obls []*Oblig, opts solveOpts) {
	run := func(list []*Oblig, par int, f func(o *Oblig)) {
		var wg sync.WaitGroup
		sem := make(chan struct{}, par)
		for _, o := range list {
			wg.Add(1)
			sem <- struct{}{}
			go func(o *Oblig) {
				defer wg.Done()
				defer func() { <-sem }()
				f(o)
			}(o)
		}
		wg.Wait()
	}
	var rest []*Oblig
	if !opts.allAgree {
		fast := opts
		fast.timeoutSec = 2
		fast.only = "z3-new"
		run(obls, opts.par, func(o *Oblig) { discharge(o, fast) })
		for _, o := range obls {
			if o.Structural {
				continue
			}
			if o.Result == "unsat" || o.Result == "sat" {
				continue
			}
			rest = append(rest, o)
		}
	} else {
		rest = obls
	}
	run(rest, 4, func(o *Oblig) { discharge(o, opts) })
}

var constCache = map[string]string{}

// tryConst asks the solver whether term has the same value in every model of
// the current prefix in which reach holds; if so it returns that literal.
func (u *Unit) tryConst(term, reach string) (string, bool) {
	dir := os.TempDir()
	base := func() string {
		var b strings.Builder
		b.WriteString("(set-option :produce-models true)\n(set-logic ALL)\n")
		for _, l := range u.so.preamble() {
			b.WriteString(l + "\n")
		}
		for _, l := range u.lines {
			// quantified facts are left out: without them the first query is decidable
			// (a model is needed), and a constant value proved from fewer assumptions is
			// still the value under all of them
			if strings.HasPrefix(l, "(assert") && (strings.Contains(l, "(forall ") || strings.Contains(l, "(exists ")) {
				continue
			}
			b.WriteString(l + "\n")
		}
		b.WriteString("(assert " + reach + ")\n")
		return b.String()
	}()
	run := func(q string) string {
		f, err := os.CreateTemp(dir, "govc-const-*.smt2")
		if err != nil {
			return ""
		}
		defer os.Remove(f.Name())
		f.WriteString(q)
		f.Close()
		out, _ := exec.Command("z3-new", "-T:10", f.Name()).CombinedOutput()
		return string(out)
	}
	out := run(base + "(check-sat)\n(get-value (" + term + "))\n")
	if !strings.HasPrefix(strings.TrimSpace(out), "sat") {
		return "", false
	}
	vals := parseGetValue(out[strings.Index(out, "sat")+3:], []string{term})
	v, ok := vals[term]
	if !ok {
		return "", false
	}
	n, ok := smtInt(v)
	if !ok {
		return "", false
	}
	lit := ilit(n)
	out = run(base + "(assert (not (= " + term + " " + lit + ")))\n(check-sat)\n")
	if strings.HasPrefix(strings.TrimSpace(out), "unsat") {
		return lit, true
	}
	return "", false
}
