package main

import (
	"fmt"
	"go/ast"
	"go/token"
	"go/types"
	"math/big"
	"regexp"
	"strconv"
	"strings"

	"golang.org/x/tools/go/ssa"
)

// modTarget is an evaluated modifies-clause entry.
type modTarget struct {
	comp  string
	sort  string
	ref   string // object reference ("" for globals)
	field int    // >= 0: only this field of the struct at ref
	structSort string
	owned bool
	ownerPkg *types.Package
	text  string
	inSet func(r string) string // set-valued target: the predicate "r is one of the targets"
}

func (fr *Frame) evalModTarget(env *Env, x ast.Expr, text string) []modTarget {
	u := fr.u
	so := u.so
	if call, ok := x.(*ast.CallExpr); ok {
		fn, _ := call.Fun.(*ast.Ident)
		if fn != nil {
			switch fn.Name {
			case "elems":
				s := env.eval(call.Args[0])
				st, ok := s.Ty.Underlying().(*types.Slice)
				if !ok {
					env.fail("elems of non-slice")
				}
				c, cs := u.elemComp(st.Elem())
				owned := false
				var ownerPkg *types.Package
				if sel, ok := call.Args[0].(*ast.SelectorExpr); ok {
					bv := env.eval(sel.X)
					if ts := u.eng.lib.Types[typeKey(derefType(bv.Ty))]; ts != nil {
						for _, o := range ts.Owned {
							if o == sel.Sel.Name {
								owned = true
								if n, ok := derefType(bv.Ty).(*types.Named); ok {
									ownerPkg = n.Obj().Pkg()
								}
							}
						}
					}
				}
				return []modTarget{{comp: c, sort: cs, ref: app("s_arr", s.T), field: -1, owned: owned, ownerPkg: ownerPkg, text: text}}
			case "recv":
				c := env.eval(call.Args[0])
				return []modTarget{{comp: "ChRecv", sort: "(Array Int Int)", ref: c.T, field: -1, text: text}}
			case "closed":
				c := env.eval(call.Args[0])
				return []modTarget{{comp: "ChClosed", sort: "(Array Int Int)", ref: c.T, field: -1, text: text}}
			case "sent":
				c := env.eval(call.Args[0])
				cht := c.Ty.Underlying().(*types.Chan)
				sc, ss := u.chanElemComp(cht)
				return []modTarget{{comp: sc, sort: ss, ref: c.T, field: -1, text: text}, {comp: "ChSentN", sort: "(Array Int Int)", ref: c.T, field: -1, text: text},
					{comp: "ChStamp", sort: "(Array Int (Array Int Int))", ref: c.T, field: -1, text: text}}
			case "gc", "gb":
				lit, ok := call.Args[0].(*ast.BasicLit)
				if !ok {
					env.fail("modifies %s(\"name\", ref)", fn.Name)
				}
				nm, _ := strconv.Unquote(lit.Value)
				ref := env.eval(call.Args[1])
				r := ref.T
				if ref.S == "Iface" {
					r = app("i_val", ref.T)
				}
				if fn.Name == "gc" {
					return []modTarget{{comp: "GC_" + mangle(nm), sort: "(Array Int Int)", ref: r, field: -1, text: text}}
				}
				return []modTarget{{comp: "GB_" + mangle(nm), sort: "(Array Int (Array Int Int))", ref: r, field: -1, text: text}}
			case "sentall":
				// sentall(chans): the send histories of every channel held in the slice chans
				sl := env.eval(call.Args[0])
				st, ok := sl.Ty.Underlying().(*types.Slice)
				if !ok {
					env.fail("sentall of non-slice")
				}
				cht, ok := st.Elem().Underlying().(*types.Chan)
				if !ok {
					env.fail("sentall: not a slice of channels")
				}
				ec, es := u.elemComp(st.Elem())
				contents := sel(u.comp(env.heap, ec, es), app("s_arr", sl.T))
				pred := func(r string) string {
					return fmt.Sprintf("(exists ((i!m Int)) (and (<= 0 i!m) (< i!m %s) (= %s (select %s (+ %s i!m)))))", app("s_len", sl.T), r, contents, app("s_off", sl.T))
				}
				sc, ss := u.chanElemComp(cht)
				return []modTarget{{comp: sc, sort: ss, field: -1, text: text, inSet: pred, ref: "SET"}, {comp: "ChSentN", sort: "(Array Int Int)", field: -1, text: text, inSet: pred, ref: "SET"},
					{comp: "ChStamp", sort: "(Array Int (Array Int Int))", field: -1, text: text, inSet: pred, ref: "SET"}}
			case "mapof":
				m := env.eval(call.Args[0])
				mt := m.Ty.Underlying().(*types.Map)
				d, ds, v, vs, n, ns := u.mapComps(mt)
				return []modTarget{{comp: d, sort: ds, ref: m.T, field: -1, text: text}, {comp: v, sort: vs, ref: m.T, field: -1, text: text}, {comp: n, sort: ns, ref: m.T, field: -1, text: text}}
			}
		}
		env.fail("bad modifies target %s", text)
	}
	if sel, ok := x.(*ast.SelectorExpr); ok {
		if id, isId := sel.X.(*ast.Ident); isId {
			if _, isVar := env.vars[id.Name]; !isVar {
				if pkg := u.eng.pkgByName(id.Name, env.pkg); pkg != nil {
					if g, ok := pkg.Members[sel.Sel.Name].(*ssa.Global); ok {
						c, s := u.globComp(g)
						return []modTarget{{comp: c, sort: s, field: -1, text: text}}
					}
				}
			}
		}
		base := env.eval(sel.X)
		if _, isPtr := base.Ty.Underlying().(*types.Pointer); isPtr {
			t := derefType(base.Ty)
			st := t.Underlying().(*types.Struct)
			c, s := u.memComp(t)
			for i := 0; i < st.NumFields(); i++ {
				if st.Field(i).Name() == sel.Sel.Name {
					return []modTarget{{comp: c, sort: s, ref: base.T, field: i, structSort: so.sortOf(t), text: text}}
				}
			}
			env.fail("modifies: no field %s", sel.Sel.Name)
		}
		env.fail("modifies target %s: base is not a pointer", text)
	}
	if id, ok := x.(*ast.Ident); ok {
		if _, isVar := env.vars[id.Name]; !isVar && env.pkg != nil {
			if g, ok := env.pkg.Members[id.Name].(*ssa.Global); ok {
				c, s := u.globComp(g)
				return []modTarget{{comp: c, sort: s, field: -1, text: text}}
			}
		}
	}
	v := env.eval(x)
	if v.Ty != nil {
		if _, isPtr := v.Ty.Underlying().(*types.Pointer); isPtr {
			c, s := u.memComp(derefType(v.Ty))
			return []modTarget{{comp: c, sort: s, ref: v.T, field: -1, text: text}}
		}
	}
	env.fail("bad modifies target %s", text)
	return nil
}

// havocTarget applies one modifies entry at a call site.
func (fr *Frame) havocTarget(env *Env, m *Clause, h Heap, pre Heap) {
	u := fr.u
	for _, t := range fr.evalModTarget(env, m.Expr, m.Text) {
		if t.owned && (fr.topPkg() == nil || fr.topPkg().Pkg != t.ownerPkg) {
			continue // private backing store: invisible to this caller (see 'owned' / encapsulation obligation)
		}
		cur := u.comp(h, t.comp, t.sort)
		if t.inSet != nil {
			nv := u.fresh(t.comp+"_call", t.sort)
			u.assume(fmt.Sprintf("(forall ((r!h Int)) (=> (not %s) (= (select %s r!h) (select %s r!h))))", t.inSet("r!h"), nv, cur))
			h[t.comp] = nv
			continue
		}
		if t.ref == "" {
			h[t.comp] = u.fresh(t.comp+"_call", t.sort)
			continue
		}
		args := splitArgs(t.sort[1 : len(t.sort)-1])
		cellSort := args[2]
		if t.field >= 0 {
			st := u.so.structs[t.structSort]
			fs := u.so.sortOf(st.Field(t.field).Type())
			nv := u.fresh("mod_"+st.Field(t.field).Name(), fs)
			u.assume(u.typeInv(nv, st.Field(t.field).Type(), "1152921504606846976"))
			h[t.comp] = u.define(t.comp, t.sort, sto(cur, t.ref, u.so.setField(t.structSort, sel(cur, t.ref), t.field, nv)))
		} else {
			nv := u.fresh("mod_cell", cellSort)
			h[t.comp] = u.define(t.comp, t.sort, sto(cur, t.ref, nv))
		}
	}
}

func (fr *Frame) topPkg() *ssa.Package {
	f := fr
	for f.parent != nil {
		f = f.parent
	}
	return f.fn.Pkg
}


// ---------------------------------------------------------------- local name resolution

func (fr *Frame) hasLocal(name string) bool {
	if _, ok := fr.names[name]; ok {
		return true
	}
	for _, b := range fr.fn.Blocks {
		for _, ins := range b.Instrs {
			if d, ok := ins.(*ssa.DebugRef); ok {
				if id, ok := d.Expr.(*ast.Ident); ok && id.Name == name {
					return true
				}
			}
		}
	}
	return false
}

// lookupLocal finds the SSA value of source variable name as seen from env.at.
func (fr *Frame) lookupLocal(name string, env *Env) (Val, bool) {
	at := env.at
	var best ssa.Value
	var bestAddr bool
	consider := func(b *ssa.BasicBlock) {
		for _, ins := range b.Instrs {
			switch x := ins.(type) {
			case *ssa.DebugRef:
				if id, ok := x.Expr.(*ast.Ident); ok && id.Name == name {
					if _, isVar := x.Object().(*types.Var); isVar {
						if _, have := fr.vals[x.X]; have || x.IsAddr {
							best, bestAddr = x.X, x.IsAddr
						}
					}
				}
			case *ssa.Phi:
				if x.Comment == name {
					if _, have := fr.vals[x]; have {
						best, bestAddr = x, false
					}
				}
			case *ssa.Alloc:
				if x.Comment == name {
					if _, have := fr.vals[x]; have {
						best, bestAddr = x, true
					}
				}
			}
		}
	}
	// walk the dominator chain from the entry block down to 'at'
	var chain []*ssa.BasicBlock
	if at != nil {
		for b := at; b != nil; b = b.Idom() {
			chain = append([]*ssa.BasicBlock{b}, chain...)
		}
	} else {
		chain = rpo(fr.fn)
	}
	for _, b := range chain {
		if at != nil && b == at {
			// only phis of the header itself
			for _, ins := range b.Instrs {
				if phi, ok := ins.(*ssa.Phi); ok && phi.Comment == name {
					if _, have := fr.vals[phi]; have {
						best, bestAddr = phi, false
					}
				}
			}
			continue
		}
		consider(b)
	}
	if best == nil {
		return Val{}, false
	}
	if bestAddr {
		lv := fr.lvOf(best)
		t := lv.ty
		return Val{T: fr.load(lv, env.heap), Ty: t, S: fr.u.so.sortOf(t)}, true
	}
	if v, ok := fr.vals[best]; ok {
		return v, true
	}
	return Val{}, false
}

// ---------------------------------------------------------------- top level: verify one function

type UnitResult struct {
	Unit *Unit
	Err  string
}

func (e *Engine) verifyFunction(key string) (u *Unit, err error) {
	fn := e.fnByKey[key]
	ct := e.lib.Contracts[key]
	if fn == nil {
		return nil, fmt.Errorf("no such function %s", key)
	}
	if fn.Blocks == nil {
		return nil, fmt.Errorf("function %s has no body", key)
	}
	u = e.newUnit(fn, ct, shortKey(key))
	u.prop = pendingProp
	curUnit = u
	defer func() {
		if r := recover(); r != nil {
			if se, ok := r.(specError); ok {
				err = fmt.Errorf("%s: %s", key, se.msg)
				return
			}
			// a construct the engine cannot handle: the function's obligations are not generated
			// (reported like a contract that does not bind, never as "held")
			err = fmt.Errorf("%s: the verifier could not encode this function (%v)", key, r)
		}
	}()
	if ct != nil && ct.NoSafety {
		u.safety = false
	}
	if ct != nil && ct.Wrap {
		u.nowrap = false
	}
	fr := u.newFrame(fn, ct, nil)
	fr.top = true
	h := Heap{}
	ctr0 := u.comp(h, "ctr", "Int")
	u.assume(app("<=", "0", ctr0))
	fr.entryHeap = h
	fr.entryReach = "true"
	// parameters
	for _, p := range fn.Params {
		s := u.so.sortOf(p.Type())
		n := u.fresh("p_"+p.Name(), s)
		v := Val{T: n, Ty: p.Type(), S: s}
		fr.vals[p] = v
		fr.names[p.Name()] = v
		u.assume(u.typeInv(n, p.Type(), ctr0))
	}
	// ghost parameters (universally quantified)
	if ct != nil {
		for _, g := range ct.Ghosts {
			parts := strings.SplitN(strings.TrimSpace(g), " ", 2)
			if len(parts) != 2 {
				return nil, fmt.Errorf("%s: bad ghostparam %q", ct.Where, g)
			}
			parts[1] = strings.TrimSpace(parts[1])
			n := u.fresh("g_"+parts[0], parts[1])
			var ty types.Type
			if parts[1] == "Int" {
				ty = intT
			}
			fr.names[parts[0]] = Val{T: n, Ty: ty, S: parts[1]}
		}
	}
	env := fr.baseEnv(h)
	isPkgInit := fn.Name() == "init" && fn.Synthetic != ""
	if isPkgInit {
		if g, ok := fn.Pkg.Members["init$guard"].(*ssa.Global); ok {
			c, s := u.globComp(g)
			u.assume(not(u.comp(h, c, s))) // the initialiser body runs once
		}
	}
	// package-level invariants established by init functions
	if fn.Name() != "init" {
		for _, g := range e.lib.Globals {
			if !u.active(g.Clause.Props) {
				continue
			}
			genv := u.newEnv(h)
			genv.pkg = e.ssaPkgs[g.Pkg]
			u.assume(genv.evalBool(g.Clause.Expr))
			u.globalsUsed[g.Pkg] = true
		}
	}
	// type invariant of the receiver (methods declared in the type's package)
	var recvInv []*Clause
	var recvVal Val
	if ts := e.recvTypeSpec(fn); ts != nil {
		recvInv = ts.Invs
		recvVal = fr.vals[fn.Params[0]]
		ienv := fr.baseEnv(h)
		ienv.vars["self"] = recvVal
		for _, inv := range recvInv {
			if u.active(inv.Props) {
				u.assume(ienv.evalBool(inv.Expr))
			}
		}
	}
	if ct != nil {
		for _, l := range ct.Lets {
			if regexp.MustCompile(`^(r\d+|result)$`).MatchString(l.Name) && fn.Signature.Results().Len() > 0 {
				return nil, fmt.Errorf("%s: let %s clashes with the name of a result", l.Where, l.Name)
			}
			v := env.eval(l.Expr)
			d := u.define("let_"+l.Name, v.S, v.T)
			fr.names[l.Name] = Val{T: d, Ty: v.Ty, S: v.S}
			env.vars[l.Name] = fr.names[l.Name]
		}
		for _, rq := range ct.Requires {
			if u.active(rq.Props) || contains(rq.Props, "C07") {
				u.assume(env.evalBool(rq.Expr))
			}
		}
		for _, us := range ct.Uses {
			u.assume(env.evalBool(us.Expr))
			u.assumed["lemma instance used: "+us.Text] = true
		}
	}
	if ct != nil && ct.FnSplit != nil && u.active(ct.FnSplit.Props) {
		v := env.eval(ct.FnSplit.Expr)
		t := u.define("split", v.S, v.T)
		u.splits = append(u.splits, splitInfo{term: t, sort: v.S, lo: ct.FnSplitLo, hi: ct.FnSplitHi, from: len(u.obls), reach: "true", text: ct.FnSplit.Text})
	}
	// vacuity: the assumptions are satisfiable
	o := u.oblig("pre-sat", "preconditions and input type invariants are satisfiable", "true", nil)
	o.ExpectSat = true
	// frame: which pre-existing locations may change
	var targets []modTarget
	if ct != nil {
		for _, m := range ct.Modifies {
			targets = append(targets, fr.evalModTarget(env, m.Expr, m.Text)...)
		}
	}
	fr.frameTargets = targets
	fr.frameAllowed = func(comp string, r string, hh Heap) string {
		var alts []string
		for _, t := range targets {
			if t.comp != comp {
				continue
			}
			if t.ref == "" {
				return "true"
			}
			if t.field >= 0 {
				continue // handled separately (field-level)
			}
			if t.inSet != nil {
				alts = append(alts, t.inSet(r))
				continue
			}
			alts = append(alts, eq(r, t.ref))
		}
		return or(alts...)
	}
	res := fr.encode()
	u.curPos = token.NoPos
	// vacuity: some return is reachable
	o = u.oblig("body-reach", "the function can return normally under its precondition", res.reach, nil)
	o.ExpectSat = true
	if isPkgInit {
		for _, g := range e.lib.Globals {
			if g.Pkg != fn.Pkg.Pkg.Path() || !u.active(g.Clause.Props) {
				continue
			}
			genv := u.newEnv(res.heap)
			genv.pkg = fn.Pkg
			for _, part := range splitConj(g.Clause.Expr) {
				ob := u.oblig("global-init", "package initialisation establishes: "+exprString(part), implies(res.reach, genv.evalBool(part)), g.Clause.Props)
				ob.Pos = g.Clause.Where
			}
		}
	}
	if ct == nil {
		return u, nil
	}
	defer u.applySplits()
	// postconditions
	penv := fr.baseEnv(res.heap)
	penv.bindResults(res.vals, fn.Signature)
	for _, en := range ct.Ensures {
		if !u.active(en.Props) {
			continue
		}
		parts := splitConj(en.Expr)
		var proved []string
		for _, part := range parts {
			g := penv.evalBool(part)
			txt := en.Text
			if len(parts) > 1 {
				txt = exprString(part) + "   [part of: " + trunc(en.Text, 80) + "]"
			}
			u.curReveal = en.Reveal
			ob := u.oblig("post", txt, implies(res.reach, g), en.Props)
			u.curReveal = nil
			ob.Pos = en.Where
			if u.sequential() {
				// the conjuncts of one ensures clause are proved in order: each may use the earlier ones
				ob.Extra = append(ob.Extra, proved...)
				proved = append(proved, "(assert "+implies(res.reach, g)+")")
			}
		}
	}
	// every argument-flow clause must have found its call site
	for _, ac := range ct.AtCalls {
		if u.active(ac.Clause.Props) && !fr.atCallSeen[ac] {
			u.oblig("callsite", fmt.Sprintf("no call of %s with a format matching /%s/ was found for: %s", ac.Callee, ac.Re, ac.Clause.Text), "false", ac.Clause.Props).Pos = ac.Clause.Where
		}
	}
	// receiver type invariant re-established (pointer receivers only: a value receiver is a copy)
	if recvInv != nil {
		if _, isPtr := fn.Signature.Recv().Type().Underlying().(*types.Pointer); !isPtr {
			recvInv = nil
		}
	}
	if recvInv != nil {
		ienv := fr.baseEnv(res.heap)
		ienv.vars["self"] = recvVal
		for _, inv := range recvInv {
			if !u.active(inv.Props) {
				continue
			}
			ob := u.oblig("type-inv", "type invariant re-established: "+inv.Text, implies(res.reach, ienv.evalBool(inv.Expr)), inv.Props)
			ob.Pos = inv.Where
		}
	}
	// frame obligations
	for _, c := range sortedCompKeys(u.comps) {
		if c == "ctr" {
			continue
		}
		s := u.comps[c]
		cur := u.comp(res.heap, c, s)
		old := u.compInit[c]
		if cur == old {
			continue
		}
		if strings.HasPrefix(c, "G_") {
			allowed := fr.frameAllowed(c, "", h)
			if allowed != "true" {
				u.oblig("modifies", "package variable "+c+" is not modified", implies(res.reach, eq(cur, old)), nil)
			}
			continue
		}
		r := "r!frame"
		allowed := fr.frameAllowed(c, r, h)
		if allowed != "true" {
			g := implies(and(app("<", "0", r), app("<=", r, ctr0), not(allowed)), eq(sel(cur, r), sel(old, r)))
			// field-level targets: at those refs every other field is unchanged
			for _, t := range targets {
				if t.comp == c && t.field >= 0 {
					st := u.so.structs[t.structSort]
					var same []string
					for i := 0; i < st.NumFields(); i++ {
						allowedField := false
						for _, t2 := range targets {
							if t2.comp == c && t2.ref == t.ref && t2.field == i {
								allowedField = true
							}
						}
						if !allowedField {
							same = append(same, eq(u.so.getField(t.structSort, sel(cur, t.ref), i), u.so.getField(t.structSort, sel(old, t.ref), i)))
						}
					}
					g = and(implies(and(app("<", "0", r), app("<=", r, ctr0), not(allowed), not(eq(r, t.ref))), eq(sel(cur, r), sel(old, r))),
						implies(and(app("<", "0", t.ref), app("<=", t.ref, ctr0)), and(same...)))
				}
			}
			ob := u.oblig("modifies", "only locations in the modifies clause change in "+c, implies(res.reach, g), nil)
			ob.Extra = []string{"(declare-const r!frame Int)"}
		}
	}
	return u, nil
}

// applySplits replaces every obligation generated after a split point by one
// variant per case, and adds the obligation that the cases are exhaustive.
func (u *Unit) applySplits() {
	for si := len(u.splits) - 1; si >= 0; si-- {
		sp := u.splits[si]
		lit := func(j int) string {
			if isBVSort(sp.sort) {
				return bvLit(big.NewInt(int64(j)), bvWidth(sp.sort))
			}
			return ilit(int64(j))
		}
		var out []*Oblig
		out = append(out, u.obls[:sp.from]...)
		for _, o := range u.obls[sp.from:] {
			if o.ExpectSat {
				out = append(out, o)
				continue
			}
			for j := sp.lo; j <= sp.hi; j++ {
				v := *o
				v.Name = fmt.Sprintf("%s[%s=%d]", o.Name, "case", j)
				v.Extra = append(append([]string(nil), o.Extra...), "(assert "+eq(sp.term, lit(j))+")")
				out = append(out, &v)
			}
		}
		var cover string
		if isBVSort(sp.sort) {
			cover = and(app("bvule", lit(sp.lo), sp.term), app("bvule", sp.term, lit(sp.hi)))
		} else {
			cover = and(app("<=", lit(sp.lo), sp.term), app("<=", sp.term, lit(sp.hi)))
		}
		// the cover obligation sees the loop-head assumptions: it is placed right after them
		c := &Oblig{Name: fmt.Sprintf("%s/split-cover#%d", u.name, si+1), Kind: "split-cover", Fn: u.name,
			Clause: fmt.Sprintf("case split on %s covers %d..%d", sp.text, sp.lo, sp.hi), Goal: implies(sp.reach, cover), Unit: u}
		if sp.from < len(u.obls) {
			c.Prefix = u.obls[sp.from].Prefix
		} else {
			c.Prefix = len(u.lines)
		}
		out = append(out, c)
		u.obls = out
	}
}

func sortedCompKeys(m map[string]string) []string {
	x := map[string]bool{}
	for k := range m {
		x[k] = true
	}
	return sortedKeys(x)
}

func (e *Engine) recvTypeSpec(fn *ssa.Function) *TypeSpec {
	if fn.Signature.Recv() == nil || len(fn.Params) == 0 {
		return nil
	}
	t := derefType(fn.Params[0].Type())
	n, ok := t.(*types.Named)
	if !ok {
		return nil
	}
	ts := e.lib.Types[typeKey(n)]
	if ts == nil || len(ts.Invs) == 0 {
		return nil
	}
	return ts
}
