package main

import (
	"fmt"
	"go/token"
	"go/types"
	"strings"

	"golang.org/x/tools/go/ssa"
)

const maxInlineDepth = 14

// ---------------------------------------------------------------- floats (rounding-error model)

// roundTo introduces r with |r - exact| <= 2^-53 * |exact| (IEEE-754 double, round to nearest, no overflow/underflow).
func (fr *Frame) rounded(exact string, prefix string) string {
	u := fr.u
	e := u.define(prefix+"_exact", "Real", exact)
	r := u.fresh(prefix, "Real")
	// eps = 2^-53
	eps := "(/ 1.0 9007199254740992.0)"
	abs := ite(app(">=", e, "0.0"), e, app("-", e))
	u.assume(and(app("<=", app("-", r, e), app("*", eps, abs)), app("<=", app("-", e, r), app("*", eps, abs))))
	// sign and zero are preserved by rounding
	u.assume(and(implies(app(">=", e, "0.0"), app(">=", r, "0.0")), implies(app("<=", e, "0.0"), app("<=", r, "0.0"))))
	u.assumed["IEEE-754 double arithmetic modelled as real arithmetic with relative rounding error <= 2^-53 per operation (no overflow/underflow/NaN)"] = true
	return r
}

func isPow2Real(t string) bool {
	if strings.HasPrefix(t, "(- ") && strings.HasSuffix(t, ")") {
		return isPow2Real(t[3 : len(t)-1])
	}
	// literal like 1024.0
	if !strings.HasSuffix(t, ".0") || strings.HasPrefix(t, "(") {
		return false
	}
	v, ok := parseLit(strings.TrimSuffix(t, ".0"))
	if !ok || v.Sign() <= 0 {
		return false
	}
	return v.BitLen()-1 == int(v.TrailingZeroBits())
}

func (fr *Frame) execFloatOp(x *ssa.BinOp, a, b Val, reach string, h Heap) {
	u := fr.u
	switch x.Op {
	case token.ADD:
		fr.setVal(x, fr.rounded(app("+", a.T, b.T), "fadd"))
	case token.SUB:
		fr.setVal(x, fr.rounded(app("-", a.T, b.T), "fsub"))
	case token.MUL:
		if isPow2Real(a.T) || isPow2Real(b.T) {
			fr.setVal(x, app("*", a.T, b.T))
			return
		}
		fr.setVal(x, fr.rounded(app("*", a.T, b.T), "fmul"))
	case token.QUO:
		if isPow2Real(b.T) {
			fr.setVal(x, app("/", a.T, b.T)) // exact
			return
		}
		if _, lit := parseLit(strings.TrimSuffix(b.T, ".0")); !lit {
			// IEEE division by zero yields Inf/NaN, not a panic: the real-arithmetic model
			// leaves the result unconstrained in that case
			q := fr.rounded(app("/", a.T, ite(eq(b.T, "0.0"), "1.0", b.T)), "fdiv")
			any := u.fresh("fdiv_by_zero", "Real")
			fr.setVal(x, ite(eq(b.T, "0.0"), any, q))
			return
		}
		fr.setVal(x, fr.rounded(app("/", a.T, b.T), "fdiv"))
	case token.EQL:
		fr.setVal(x, eq(a.T, b.T))
	case token.NEQ:
		fr.setVal(x, not(eq(a.T, b.T)))
	case token.LSS:
		fr.setVal(x, app("<", a.T, b.T))
	case token.LEQ:
		fr.setVal(x, app("<=", a.T, b.T))
	case token.GTR:
		fr.setVal(x, app(">", a.T, b.T))
	case token.GEQ:
		fr.setVal(x, app(">=", a.T, b.T))
	default:
		u.unsupportedAt(reach, "float op "+x.Op.String())
		fr.havocVal(x, h)
	}
}

func (fr *Frame) execIntToFloat(x *ssa.Convert, v Val, reach string) {
	u := fr.u
	if u.so.bv {
		u.unsupportedAt(reach, "int to float in bv mode")
		fr.vals[x] = Val{T: "0.0", Ty: x.Type(), S: "Real"}
		return
	}
	// exact when |v| <= 2^53
	lim := "9007199254740992"
	exact := and(app("<=", "(- "+lim+")", v.T), app("<=", v.T, lim))
	if !u.nowrap {
		fr.setVal(x, ite(exact, app("to_real", v.T), fr.rounded(app("to_real", v.T), "i2f")))
		return
	}
	u.oblig("int-to-float", "integer converted to float64 is exactly representable (|x| <= 2^53)", implies(reach, exact), nil)
	fr.setVal(x, app("to_real", v.T))
}

func (fr *Frame) execFloatToInt(x *ssa.Convert, v Val, reach string, h Heap) {
	// truncation toward zero
	fl := app("to_int", v.T)
	neg := app("-", app("to_int", app("-", v.T)))
	fr.setVal(x, ite(app(">=", v.T, "0.0"), fl, neg))
}

// ---------------------------------------------------------------- calls

func (fr *Frame) call(ins ssa.Instruction, cc *ssa.CallCommon, reach string, h Heap) []Val {
	u := fr.u
	var args []Val
	for _, a := range cc.Args {
		if lv, isLV := fr.lvs[a]; isLV && !(lv.kind == lvElem && u.interior(lv.ty)) {
			// interior pointer passed to a call
			u.unsupportedAt(reach, "interior pointer passed to call "+cc.String())
			args = append(args, Val{T: "0", Ty: a.Type(), S: "Int"})
			continue
		}
		if g, isG := a.(*ssa.Global); isG {
			_ = g
			args = append(args, Val{T: "0", Ty: a.Type(), S: "Int"})
			continue
		}
		args = append(args, fr.valOf(a))
	}
	resTypes := cc.Signature().Results()
	if cc.IsInvoke() {
		recv := fr.valOf(cc.Value)
		name := cc.Method.Name()
		if name == "Error" && types.Identical(cc.Value.Type(), types.Universe.Lookup("error").Type()) {
			fr.safetyOblig("nil-deref", "error value is not nil when Error() is called", reach, not(eq(app("i_tag", recv.T), "0")))
			return []Val{{T: app("errmsg", app("i_val", recv.T)), Ty: types.Typ[types.String], S: "Str"}}
		}
		key := "invoke " + typeKey(cc.Value.Type()) + "." + name
		if n, ok := cc.Value.Type().(*types.Named); ok {
			key = "invoke " + typeKey(n) + "." + name
		}
		if ct := u.eng.lib.Contracts[key]; ct != nil {
			return fr.callByContract(ct, nil, cc.Signature(), append([]Val{recv}, args...), reach, h, key, true)
		}
		u.unsupportedAt(reach, "interface method call "+key)
		return fr.havocResults(resTypes, h)
	}
	switch callee := cc.Value.(type) {
	case *ssa.Builtin:
		return fr.callBuiltin(callee, cc, args, reach, h)
	case *ssa.Function:
		return fr.callStatic(callee, cc, args, reach, h)
	case *ssa.MakeClosure:
		if f, ok := callee.Fn.(*ssa.Function); ok && len(callee.Bindings) == 0 {
			return fr.callStatic(f, cc, args, reach, h)
		}
	}
	u.unsupportedAt(reach, "dynamic call "+cc.String())
	return fr.havocResults(resTypes, h)
}

func (fr *Frame) havocResults(tup *types.Tuple, h Heap) []Val {
	var out []Val
	for i := 0; i < tup.Len(); i++ {
		out = append(out, fr.havocOfType(tup.At(i).Type(), "callres", h))
	}
	return out
}

func (fr *Frame) callBuiltin(b *ssa.Builtin, cc *ssa.CallCommon, args []Val, reach string, h Heap) []Val {
	u := fr.u
	so := u.so
	intT := types.Typ[types.Int]
	mkInt := func(t string) []Val {
		if so.bv {
			return []Val{{T: t, Ty: intT, S: "(_ BitVec 64)"}}
		}
		return []Val{{T: t, Ty: intT, S: "Int"}}
	}
	switch b.Name() {
	case "len":
		a := args[0]
		switch ut := a.Ty.Underlying().(type) {
		case *types.Slice:
			return mkInt(app("s_len", a.T))
		case *types.Basic:
			if so.bv {
				u.unsupportedAt(reach, "len(string) in bv mode")
				return mkInt("(_ bv0 64)")
			}
			return mkInt(app("strlen", a.T))
		case *types.Map:
			_, _, _, _, n, ns := u.mapComps(ut)
			return mkInt(ite(eq(a.T, "0"), "0", sel(u.comp(h, n, ns), a.T)))
		case *types.Array:
			return mkInt(so.idxLit(ut.Len()))
		case *types.Pointer:
			if at, ok := ut.Elem().Underlying().(*types.Array); ok {
				return mkInt(so.idxLit(at.Len()))
			}
		case *types.Chan:
			// number of queued elements: unknown, non-negative
			n := u.fresh("chanlen", "Int")
			u.assume(app("<=", "0", n))
			return mkInt(n)
		}
	case "cap":
		a := args[0]
		if _, ok := a.Ty.Underlying().(*types.Slice); ok {
			return mkInt(app("s_cap", a.T))
		}
	case "append":
		return fr.callAppend(cc, args, reach, h)
	case "close":
		fr.execClose(args[0].T, reach, h)
		return nil
	case "copy":
		return fr.callCopy(cc, args, reach, h)
	case "delete":
		mt := args[0].Ty.Underlying().(*types.Map)
		m, k := args[0].T, args[1].T
		d, ds, _, _, n, ns := u.mapComps(mt)
		dc := u.comp(h, d, ds)
		nc := u.comp(h, n, ns)
		had := and(not(eq(m, "0")), sel(sel(dc, m), k))
		h[n] = u.define(n, ns, sto(nc, m, isub(sel(nc, m), ite(had, "1", "0"))))
		h[d] = u.define(d, ds, sto(dc, m, sto(sel(dc, m), k, "false")))
		return nil
	case "print", "println":
		return nil
	}
	u.unsupportedAt(reach, "builtin "+b.Name())
	return fr.havocResults(cc.Signature().Results(), h)
}

func (fr *Frame) callAppend(cc *ssa.CallCommon, args []Val, reach string, h Heap) []Val {
	u := fr.u
	so := u.so
	s, t := args[0], args[1]
	st := s.Ty.Underlying().(*types.Slice)
	c, cs := u.elemComp(st.Elem())
	cur := u.comp(h, c, cs)
	one := so.idxLit(1)
	tl := app("s_len", t.T)
	// only single-element appends are modelled exactly
	isOne := false
	if sl, ok := cc.Args[1].(*ssa.Slice); ok {
		if al, ok := sl.X.(*ssa.Alloc); ok {
			if at, ok := al.Type().(*types.Pointer).Elem().Underlying().(*types.Array); ok && at.Len() == 1 && sl.Low == nil && sl.High == nil {
				isOne = true
			}
		}
	}
	if !isOne {
		if _, isSlice := t.Ty.Underlying().(*types.Slice); !isSlice || so.bv {
			u.unsupportedAt(reach, "append of a string or in bit-vector mode")
			return []Val{fr.havocOfType(s.Ty, "append", h)}
		}
		// append(s, t...): the n = len(t) cells behind s are the cells of t as they were before
		// the call (memmove semantics, so t may overlap s); in place when the capacity suffices,
		// otherwise in a fresh array that keeps the model-level offset
		ln, cp, off := app("s_len", s.T), app("s_cap", s.T), app("s_off", s.T)
		n := tl
		newLen := u.define("append_len", "Int", iadd(ln, n))
		inPlace := u.define("append_inplace", "Bool", app("<=", newLen, cp))
		fresh := fr.newRef(h, "append_arr")
		newArr := u.define("append_ref", "Int", ite(inPlace, app("s_arr", s.T), fresh))
		newCap := u.fresh("append_cap", "Int")
		u.assume(and(app("<=", newLen, newCap), implies(inPlace, eq(newCap, cp)), app("<=", newCap, "72057594037927936")))
		cur2 := u.comp(h, c, cs)
		newContents := u.fresh("append_dst", arrSort("Int", so.sortOf(st.Elem())))
		lo := iadd(off, ln)
		u.assume(fmt.Sprintf("(forall ((k!a Int)) (! (= (select %s k!a) (ite (and (<= %s k!a) (< k!a (+ %s %s))) (select (select %s %s) (+ %s (- k!a %s))) (select (select %s %s) k!a))) :pattern ((select %s k!a))))",
			newContents, lo, lo, n, cur, app("s_arr", t.T), app("s_off", t.T), lo, cur, app("s_arr", s.T), newContents))
		h[c] = u.define(c, cs, sto(cur2, newArr, newContents))
		res := u.define("append_res", so.sliceSort(), fmt.Sprintf("(mk_%s %s %s %s %s)", so.sliceSort(), newArr, off, newLen, newCap))
		return []Val{{T: res, Ty: s.Ty, S: so.sliceSort()}}
	}
	_ = tl
	elem := sel(sel(cur, app("s_arr", t.T)), app("s_off", t.T))
	ln := app("s_len", s.T)
	cp := app("s_cap", s.T)
	off := app("s_off", s.T)
	inPlace := u.define("append_inplace", "Bool", fr.idxLt(ln, cp))
	fresh := fr.newRef(h, "append_arr")
	newArr := u.define("append_ref", "Int", ite(inPlace, app("s_arr", s.T), fresh))
	newCap := u.fresh("append_cap", so.idxSort())
	newLen := fr.idxAdd(ln, one)
	u.assume(and(fr.idxLe(newLen, newCap), implies(inPlace, eq(newCap, cp))))
	if !so.bv {
		u.assume(app("<=", newCap, "72057594037927936"))
	} else {
		u.assume(app("bvult", newCap, "(_ bv72057594037927936 64)"))
	}
	// a fresh array keeps the (model-level) offset of the old slice; its cells
	// below off+len are copies, the cell at off+len is the new element.
	cur2 := u.comp(h, c, cs)
	h[c] = u.define(c, cs, sto(cur2, newArr, sto(sel(cur2, app("s_arr", s.T)), fr.idxAdd(off, ln), elem)))
	res := u.define("append_res", so.sliceSort(), fmt.Sprintf("(mk_%s %s %s %s %s)", so.sliceSort(), newArr, off, newLen, newCap))
	return []Val{{T: res, Ty: s.Ty, S: so.sliceSort()}}
}

func (fr *Frame) callCopy(cc *ssa.CallCommon, args []Val, reach string, h Heap) []Val {
	u := fr.u
	so := u.so
	dst, src := args[0], args[1]
	dt, ok := dst.Ty.Underlying().(*types.Slice)
	if !ok || so.bv {
		u.unsupportedAt(reach, "copy")
		return fr.havocResults(cc.Signature().Results(), h)
	}
	if _, isStr := src.Ty.Underlying().(*types.Basic); isStr {
		u.unsupportedAt(reach, "copy from string")
		return fr.havocResults(cc.Signature().Results(), h)
	}
	c, cs := u.elemComp(dt.Elem())
	cur := u.comp(h, c, cs)
	n := u.define("copy_n", "Int", ite(app("<", app("s_len", dst.T), app("s_len", src.T)), app("s_len", dst.T), app("s_len", src.T)))
	newContents := u.fresh("copy_dst", arrSort("Int", so.sortOf(dt.Elem())))
	da, doff := app("s_arr", dst.T), app("s_off", dst.T)
	sa, soff := app("s_arr", src.T), app("s_off", src.T)
	u.assume(fmt.Sprintf("(forall ((k!c Int)) (= (select %s k!c) (ite (and (<= %s k!c) (< k!c (+ %s %s))) (select (select %s %s) (+ %s (- k!c %s))) (select (select %s %s) k!c))))",
		newContents, doff, doff, n, cur, sa, soff, doff, cur, da))
	h[c] = u.define(c, cs, sto(cur, da, newContents))
	return []Val{{T: n, Ty: types.Typ[types.Int], S: "Int"}}
}

func (e *Engine) inRepo(fn *ssa.Function) bool {
	if fn.Pkg == nil {
		if fn.Origin() != nil && fn.Origin().Pkg != nil {
			return strings.HasPrefix(fn.Origin().Pkg.Pkg.Path(), e.modPath)
		}
		return false
	}
	p := fn.Pkg.Pkg.Path()
	return strings.HasPrefix(p, e.modPath) || e.inlinePkgs[p]
}

// atCallObligations: argument-flow clauses of the enclosing function's contract.
func (fr *Frame) atCallObligations(key string, args []Val, reach string, h Heap) {
	u := fr.u
	if fr.ct == nil {
		return
	}
	for _, ac := range fr.ct.AtCalls {
		if ac.Callee != key || !u.active(ac.Clause.Props) {
			continue
		}
		if len(args) == 0 {
			continue
		}
		lit, isLit := "", false
		if ac.Re.String() == ".*" {
			// the pattern .* selects every call of the callee (argument flow into a constructor etc.)
			lit, isLit = "", true
		} else {
			for l, name := range u.so.strLits {
				if name == args[0].T {
					lit, isLit = l, true
				}
			}
		}
		if !isLit || !ac.Re.MatchString(lit) {
			continue
		}
		env := fr.baseEnv(h)
		for i, a := range args {
			env.vars[fmt.Sprintf("a%d", i)] = a
		}
		for _, part := range splitConj(ac.Clause.Expr) {
			o := u.oblig("callsite", fmt.Sprintf("at call of %s(%q ...): %s", shortKey(key), trunc(lit, 40), exprString(part)), implies(reach, env.evalBool(part)), ac.Clause.Props)
			o.Pos = ac.Clause.Where
		}
		fr.atCallSeen[ac] = true
	}
}

func (fr *Frame) callStatic(callee *ssa.Function, cc *ssa.CallCommon, args []Val, reach string, h Heap) []Val {
	u := fr.u
	key := callee.String()
	fr.atCallObligations(key, args, reach, h)
	if callee.Name() == "init" && callee.Synthetic != "" {
		// initialisation of an imported package: no effect on this package's state
		u.assumed["package initialisers of imported packages do not touch this repository's package variables"] = true
		return nil
	}
	ct := u.eng.lib.Contracts[key]
	if ct != nil && !ct.Inline {
		return fr.callByContract(ct, callee, cc.Signature(), args, reach, h, key, false)
	}
	if callee.Blocks != nil && u.eng.inRepo(callee) {
		if fr.depth >= maxInlineDepth || fr.onStack(callee) {
			u.unsupportedAt(reach, "recursive or too deep inlining of "+key)
			return fr.havocResults(cc.Signature().Results(), h)
		}
		return fr.inline(callee, ct, args, reach, h)
	}
	u.unsupportedAt(reach, "call to function without contract: "+key)
	return fr.havocResults(cc.Signature().Results(), h)
}

func (fr *Frame) onStack(fn *ssa.Function) bool {
	for f := fr; f != nil; f = f.parent {
		if f.fn == fn {
			return true
		}
	}
	return false
}

func (fr *Frame) inline(callee *ssa.Function, ct *Contract, args []Val, reach string, h Heap) []Val {
	u := fr.u
	u.inlined[callee.String()] = true
	// Annotated loops that moved into a new helper: when the caller's contract has loop annotations,
	// the caller's body no longer has a loop, and the callee is a function the unchanged tree does not
	// have with exactly that many loops, the annotations (and the caller's lets) follow the loops.
	// Like the renamed-locals rule this cannot make a wrong program verify: the annotations are
	// auxiliary, every postcondition is still proved of the code as it stands.
	moved := false
	if ct == nil && fr.ct != nil && len(fr.ct.Loops) > 0 && fr.parent == nil && countLoopHeaders(fr.fn) == 0 &&
		countLoopHeaders(callee) == len(fr.ct.Loops) && !knownOnBaseline(callee.String()) {
		ct = &Contract{Inline: true, Loops: fr.ct.Loops, Where: fr.ct.Where}
		moved = true
		u.assumed[fmt.Sprintf("loop annotations of %s applied to the loops of the new helper %s (the annotated loops moved there)", shortKey(fr.fn.String()), callee.Name())] = true
	}
	sub := u.newFrame(callee, ct, fr)
	if moved {
		for k, v := range fr.names {
			sub.names[k] = v
		}
	}
	sub.frameAllowed = fr.frameAllowed
	sub.frameTargets = fr.frameTargets
	sub.entryReach = reach
	sub.entryHeap = h.clone()
	for i, p := range callee.Params {
		sub.vals[p] = args[i]
		sub.names[p.Name()] = args[i]
	}
	savePos := u.curPos
	res := sub.encode()
	u.curPos = savePos
	// continue in the caller with the callee's exit state
	for k := range h {
		delete(h, k)
	}
	for k, v := range res.heap {
		h[k] = v
	}
	// paths that do not return (panics) end here: subsequent code is reached only if the callee returned
	if res.reach != reach {
		fr.narrowReach(res.reach)
	}
	return res.vals
}

// narrowReach strengthens the reachability of the current block after a call
// that may not return on all paths.
func (fr *Frame) narrowReach(r string) {
	fr.reach[fr.curBlock] = r
}

// callByContract: check pre, havoc the modifies set, assume post.
func (fr *Frame) callByContract(ct *Contract, callee *ssa.Function, sig *types.Signature, args []Val, reach string, h Heap, key string, invoke bool) []Val {
	u := fr.u
	if ct.Trusted {
		u.assumed["assumed contract: "+key] = true
	} else {
		u.called[key] = true
	}
	if ct.Mode == "bv" && !u.so.bv {
		// bit positions and widths are usually constants that reach the call through
		// variables: discover them (each discovery is an unsat query: prefix && reach && arg != c)
		args = append([]Val(nil), args...)
		for i, a := range args {
			if a.S != "Int" {
				continue
			}
			if _, lit := parseLit(a.T); lit {
				continue
			}
			if c, ok := u.tryConst(a.T, reach); ok {
				args[i] = Val{T: c, Ty: a.Ty, S: "Int"}
			}
		}
	}
	env := fr.calleeEnv(ct, callee, sig, args, h, invoke)
	// ghost parameters: bound to the caller's ghost of the same name, else arbitrary
	for _, g := range ct.Ghosts {
		parts := strings.SplitN(strings.TrimSpace(g), " ", 2)
		if len(parts) != 2 {
			continue
		}
		parts[1] = strings.TrimSpace(parts[1])
		var found *Val
		for f := fr; f != nil && found == nil; f = f.parent {
			if v, ok := f.names[parts[0]]; ok && v.S == parts[1] {
				vv := v
				found = &vv
			}
		}
		if found == nil {
			n := u.fresh("ghost_"+parts[0], parts[1])
			var ty types.Type
			if parts[1] == "Int" {
				ty = intT
			}
			found = &Val{T: n, Ty: ty, S: parts[1]}
		}
		env.vars[parts[0]] = *found
	}
	for _, l := range ct.Lets {
		env.vars[l.Name] = env.eval(l.Expr)
	}
	for _, rq := range ct.Requires {
		g := env.evalBool(rq.Expr)
		// a library panic guard at an application call site is not an obligation of the caller
		// (the applications' well-formedness facts about messages are not carried across channels;
		// DESIGN.md 11.3): treated as under the properties where C07 clauses are inactive
		appToLib := !inRtcm(fr.fn.String()) && inRtcm(key) && len(rq.Props) == 1 && rq.Props[0] == "C07" && u.prop != "C07"
		if !u.active(rq.Props) || appToLib {
			if !contains(rq.Props, "C07") {
				continue // functional precondition of clauses that are not relied upon under this property
			}
			// A precondition tagged C07 is a panic guard: the callee cannot return
			// normally when it is violated, so under partial correctness it holds after the call.
			reach = u.define("reach_pre", "Bool", and(reach, g))
			fr.reach[fr.curBlock] = reach
			u.assumed[fmt.Sprintf("panic-guard precondition of %s (%s) is checked under %s only; here a normal return implies it", shortKey(key), rq.Text, strings.Join(rq.Props, ","))] = true
			continue
		}
		u.curReveal = rq.Reveal
		o := u.oblig("pre@call", fmt.Sprintf("precondition of %s: %s", shortKey(key), rq.Text), implies(reach, g), rq.Props)
		u.curReveal = nil
		o.Detail = key
	}
	// type invariant of the receiver: same-package callers establish it before the call
	// (outside the package it cannot be broken: the fields are unexported); the callee
	// re-establishes it (obligation type-inv in its own unit), so it holds afterwards.
	var recvTS *TypeSpec
	if callee != nil {
		recvTS = u.eng.recvTypeSpec(callee)
		if recvTS != nil {
			if _, isPtr := callee.Signature.Recv().Type().Underlying().(*types.Pointer); !isPtr {
				recvTS = nil
			}
		}
	}
	if recvTS != nil && fr.topPkg() == callee.Pkg {
		ienv := fr.calleeEnv(ct, callee, sig, args, h, invoke)
		ienv.vars["self"] = args[0]
		for _, inv := range recvTS.Invs {
			if !u.active(inv.Props) {
				continue
			}
			o := u.oblig("pre@call", fmt.Sprintf("type invariant of the receiver holds when calling %s: %s", shortKey(key), inv.Text), implies(reach, ienv.evalBool(inv.Expr)), inv.Props)
			o.Detail = key
		}
	}
	pre := h.clone()
	// havoc
	if !ct.Pure {
		for _, m := range ct.Modifies {
			fr.havocTarget(env, m, h, pre)
		}
		// allocation may have happened
		nc := u.fresh("ctr_after_call", "Int")
		u.assume(app("<=", fr.ctr(pre), nc))
		h["ctr"] = nc
	}
	// results
	var res []Val
	rt := sig.Results()
	for i := 0; i < rt.Len(); i++ {
		v := fr.havocOfType(rt.At(i).Type(), "r_"+shortKey(key), h)
		res = append(res, v)
	}
	post := fr.calleeEnv(ct, callee, sig, args, h, invoke)
	post.old = pre
	post.oldVars = env.vars
	for k, v := range env.vars {
		if _, ok := post.vars[k]; !ok {
			post.vars[k] = v
		}
	}
	post.bindResults(res, sig)
	if key == "fmt.Sprintf" || key == "fmt.Errorf" {
		fr.sprintfFacts(key, res, args, reach)
	}
	if recvTS != nil {
		ienv := fr.calleeEnv(ct, callee, sig, args, h, invoke)
		ienv.vars["self"] = args[0]
		for _, inv := range recvTS.Invs {
			if u.active(inv.Props) {
				u.assume(implies(reach, ienv.evalBool(inv.Expr)))
			}
		}
	}
	ens := ct.Ensures
	if ct.Mode == "bv" && !u.so.bv {
		ens = ct.Exports
		u.bvCallees[key] = true
		u.assumed["int-mode export of bv-mode contract "+shortKey(key)+" (justified by the C14 bridge lemmas)"] = true
	}
	for _, en := range ens {
		if !u.active(en.Props) {
			continue // clause serves another property: not relied upon here
		}
		u.assume(implies(reach, post.evalBool(en.Expr)))
	}
	return res
}

func shortKey(k string) string {
	k = strings.ReplaceAll(k, "github.com/goblimey/go-ntrip/", "")
	return k
}

// calleeEnv binds parameter names of the callee to argument values.
func (fr *Frame) calleeEnv(ct *Contract, callee *ssa.Function, sig *types.Signature, args []Val, h Heap, invoke bool) *Env {
	env := fr.u.newEnv(h)
	env.old = h
	if callee != nil {
		env.pkg = callee.Pkg
		if callee.Pkg == nil && callee.Origin() != nil {
			env.pkg = callee.Origin().Pkg
		}
		for i, p := range callee.Params {
			if i < len(args) {
				env.vars[p.Name()] = args[i]
			}
		}
	} else {
		// trusted external: parameters named by the signature; receiver is "self"
		k := 0
		if sig.Recv() != nil || invoke {
			env.vars["self"] = args[0]
			k = 1
		}
		ps := sig.Params()
		for i := 0; i < ps.Len() && k+i < len(args); i++ {
			n := ps.At(i).Name()
			if n == "" || n == "_" {
				n = fmt.Sprintf("a%d", i)
			}
			env.vars[n] = args[k+i]
			env.vars[fmt.Sprintf("a%d", i)] = args[k+i]
		}
	}
	env.fr = fr
	return env
}

func contains(xs []string, x string) bool {
	for _, y := range xs {
		if y == x {
			return true
		}
	}
	return false
}

// sprintfFacts: a formatted string is at least as long as the literal
// (non-verb) characters of a constant format.
func (fr *Frame) sprintfFacts(key string, res []Val, args []Val, reach string) {
	u := fr.u
	if len(args) == 0 || len(res) == 0 {
		return
	}
	var format string
	found := false
	for lit, name := range u.so.strLits {
		if name == args[0].T {
			format, found = lit, true
		}
	}
	if !found {
		return
	}
	n := 0
	for i := 0; i < len(format); i++ {
		if format[i] == '%' {
			// skip the verb
			i++
			for i < len(format) && strings.ContainsRune("+-# 0123456789.", rune(format[i])) {
				i++
			}
			if i < len(format) && format[i] == '%' {
				n++
			}
			continue
		}
		n++
	}
	r := res[0].T
	if key == "fmt.Errorf" {
		r = app("errmsg", app("i_val", res[0].T))
	}
	u.assume(implies(reach, app(">=", app("strlen", r), fmt.Sprint(n))))
	u.assumed["fmt.Sprintf output is at least as long as the literal characters of its format"] = true
}
