package main

// Small helpers for building SMT-LIB 2 terms as strings, with light
// constant folding on integer literals.

import (
	"fmt"
	"math/big"
	"strings"
)

func app(op string, args ...string) string {
	return "(" + op + " " + strings.Join(args, " ") + ")"
}

// parseLit recognises integer literals as printed by ilit.
func parseLit(t string) (*big.Int, bool) {
	if len(t) == 0 {
		return nil, false
	}
	if t[0] == '(' {
		if strings.HasPrefix(t, "(- ") && strings.HasSuffix(t, ")") {
			in := t[3 : len(t)-1]
			if v, ok := new(big.Int).SetString(in, 10); ok && !strings.ContainsAny(in, " -") {
				return v.Neg(v), true
			}
		}
		return nil, false
	}
	if t[0] < '0' || t[0] > '9' {
		return nil, false
	}
	v, ok := new(big.Int).SetString(t, 10)
	return v, ok
}

func ilitB(v *big.Int) string {
	if v.Sign() < 0 {
		return "(- " + new(big.Int).Neg(v).String() + ")"
	}
	return v.String()
}

func ilit(v int64) string { return ilitB(big.NewInt(v)) }

func pow2(k uint) *big.Int { return new(big.Int).Lsh(big.NewInt(1), k) }

func iadd(a, b string) string {
	x, ok1 := parseLit(a)
	y, ok2 := parseLit(b)
	if ok1 && ok2 {
		return ilitB(new(big.Int).Add(x, y))
	}
	if ok1 && x.Sign() == 0 {
		return b
	}
	if ok2 && y.Sign() == 0 {
		return a
	}
	return app("+", a, b)
}

func isub(a, b string) string {
	x, ok1 := parseLit(a)
	y, ok2 := parseLit(b)
	if ok1 && ok2 {
		return ilitB(new(big.Int).Sub(x, y))
	}
	if ok2 && y.Sign() == 0 {
		return a
	}
	return app("-", a, b)
}

func imul(a, b string) string {
	x, ok1 := parseLit(a)
	y, ok2 := parseLit(b)
	if ok1 && ok2 {
		return ilitB(new(big.Int).Mul(x, y))
	}
	if ok1 && x.Cmp(big.NewInt(1)) == 0 {
		return b
	}
	if ok2 && y.Cmp(big.NewInt(1)) == 0 {
		return a
	}
	if (ok1 && x.Sign() == 0) || (ok2 && y.Sign() == 0) {
		return "0"
	}
	return app("*", a, b)
}

// floor division / euclidean modulo by a positive literal
func idivc(a string, c *big.Int) string {
	if x, ok := parseLit(a); ok {
		q, _ := new(big.Int).DivMod(x, c, new(big.Int))
		return ilitB(q)
	}
	if c.Cmp(big.NewInt(1)) == 0 {
		return a
	}
	return app("div", a, ilitB(c))
}

func imodc(a string, c *big.Int) string {
	if x, ok := parseLit(a); ok {
		_, m := new(big.Int).DivMod(x, c, new(big.Int))
		return ilitB(m)
	}
	return app("mod", a, ilitB(c))
}

func icmp(op, a, b string) string {
	x, ok1 := parseLit(a)
	y, ok2 := parseLit(b)
	if ok1 && ok2 {
		c := x.Cmp(y)
		var r bool
		switch op {
		case "<":
			r = c < 0
		case "<=":
			r = c <= 0
		case ">":
			r = c > 0
		case ">=":
			r = c >= 0
		case "=":
			r = c == 0
		}
		if r {
			return "true"
		}
		return "false"
	}
	return app(op, a, b)
}

func and(xs ...string) string {
	var out []string
	for _, x := range xs {
		if x == "true" || x == "" {
			continue
		}
		if x == "false" {
			return "false"
		}
		out = append(out, x)
	}
	switch len(out) {
	case 0:
		return "true"
	case 1:
		return out[0]
	}
	return app("and", out...)
}

func or(xs ...string) string {
	var out []string
	for _, x := range xs {
		if x == "false" || x == "" {
			continue
		}
		if x == "true" {
			return "true"
		}
		out = append(out, x)
	}
	switch len(out) {
	case 0:
		return "false"
	case 1:
		return out[0]
	}
	return app("or", out...)
}

func not(x string) string {
	switch x {
	case "true":
		return "false"
	case "false":
		return "true"
	}
	if strings.HasPrefix(x, "(not ") && balanced(x[5:len(x)-1]) {
		return x[5 : len(x)-1]
	}
	return app("not", x)
}

func balanced(s string) bool {
	d := 0
	for i := 0; i < len(s); i++ {
		switch s[i] {
		case '(':
			d++
		case ')':
			d--
			if d < 0 {
				return false
			}
		case ' ':
			if d == 0 {
				return false
			}
		}
	}
	return d == 0
}

func implies(a, b string) string {
	if a == "true" {
		return b
	}
	if a == "false" || b == "true" {
		return "true"
	}
	return app("=>", a, b)
}

func ite(c, a, b string) string {
	if c == "true" {
		return a
	}
	if c == "false" {
		return b
	}
	if a == b {
		return a
	}
	return app("ite", c, a, b)
}

func eq(a, b string) string {
	if a == b {
		return "true"
	}
	if _, ok := parseLit(a); ok {
		if _, ok2 := parseLit(b); ok2 {
			return icmp("=", a, b)
		}
	}
	if (a == "true" && b == "false") || (a == "false" && b == "true") {
		return "false"
	}
	if b == "true" {
		return a
	}
	if a == "true" {
		return b
	}
	return app("=", a, b)
}

func sel(a, i string) string      { return app("select", a, i) }
func sto(a, i, v string) string   { return app("store", a, i, v) }
func arrSort(k, v string) string  { return "(Array " + k + " " + v + ")" }
func quote(name string) string    { return "|" + name + "|" }
func sprintf(f string, a ...interface{}) string { return fmt.Sprintf(f, a...) }

// mangle makes an identifier safe to use unquoted in SMT-LIB.
func mangle(s string) string {
	var b strings.Builder
	for _, r := range s {
		switch {
		case r >= 'a' && r <= 'z', r >= 'A' && r <= 'Z', r >= '0' && r <= '9', r == '_':
			b.WriteRune(r)
		case r == '.' || r == '/':
			b.WriteByte('_')
		case r == '*':
			b.WriteString("P")
		case r == '[' || r == ']':
			b.WriteString("B")
		default:
			b.WriteString("_")
		}
	}
	return b.String()
}
