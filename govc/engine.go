package main

import (
	"fmt"
	"go/ast"
	"go/token"
	"go/types"
	"os"
	"path/filepath"
	"sort"
	"strings"

	"golang.org/x/tools/go/packages"
	"golang.org/x/tools/go/ssa"
	"golang.org/x/tools/go/ssa/ssautil"
)

type Engine struct {
	prog       *ssa.Program
	pkgs       []*packages.Package
	ssaPkgs    map[string]*ssa.Package
	lib        *SpecLib
	repoDir    string
	modPath    string
	inlinePkgs map[string]bool
	fnByKey    map[string]*ssa.Function
	loadErrs   []string
	interiorTypes map[string]bool
	renamed    []string // contracts rebound to renamed functions (locals.go)
}

func loadEngine(repoDir string, specDir string) (*Engine, error) {
	e := &Engine{repoDir: repoDir, modPath: "github.com/goblimey/go-ntrip", ssaPkgs: map[string]*ssa.Package{}, inlinePkgs: map[string]bool{
		"github.com/goblimey/go-crc24q/crc24q": true,
	}, fnByKey: map[string]*ssa.Function{}, lib: newSpecLib()}
	cfg := &packages.Config{Mode: packages.LoadAllSyntax, Dir: repoDir, BuildFlags: []string{"-tags=verif"}, Tests: false}
	pkgs, err := packages.Load(cfg, "./...")
	if err != nil {
		return nil, err
	}
	for _, p := range pkgs {
		for _, er := range p.Errors {
			e.loadErrs = append(e.loadErrs, er.Error())
		}
	}
	if len(e.loadErrs) > 0 {
		return nil, fmt.Errorf("package load errors: %s", strings.Join(e.loadErrs, "; "))
	}
	e.pkgs = pkgs
	prog, _ := ssautil.AllPackages(pkgs, ssa.GlobalDebug)
	prog.Build()
	e.prog = prog
	for _, p := range prog.AllPackages() {
		e.ssaPkgs[p.Pkg.Path()] = p
	}
	for fn := range ssautil.AllFunctions(prog) {
		e.fnByKey[fn.String()] = fn
	}
	// struct types whose slice elements have their address taken as a value
	e.interiorTypes = map[string]bool{}
	for fn := range ssautil.AllFunctions(prog) {
		if fn.Pkg == nil || !strings.HasPrefix(fn.Pkg.Pkg.Path(), e.modPath) {
			continue
		}
		for _, b := range fn.Blocks {
			for _, ins := range b.Instrs {
				ia, ok := ins.(*ssa.IndexAddr)
				if !ok {
					continue
				}
				for _, ref := range *ia.Referrers() {
					switch r := ref.(type) {
					case *ssa.UnOp, *ssa.DebugRef, *ssa.FieldAddr, *ssa.IndexAddr:
					case *ssa.Store:
						if r.Val == ia {
							e.interiorTypes[typeKey(derefType(ia.Type()))] = true
						}
					default:
						if _, isStruct := derefType(ia.Type()).Underlying().(*types.Struct); isStruct {
							e.interiorTypes[typeKey(derefType(ia.Type()))] = true
						}
					}
				}
			}
		}
	}
	// shared spec files
	if specDir != "" {
		files, _ := filepath.Glob(filepath.Join(specDir, "*.spec"))
		sort.Strings(files)
		for _, f := range files {
			if err := e.lib.loadFile(f, ""); err != nil {
				return nil, err
			}
		}
	}
	// contract files inside the repo packages
	for _, p := range pkgs {
		if !strings.HasPrefix(p.PkgPath, e.modPath) {
			continue
		}
		rel := strings.TrimPrefix(strings.TrimPrefix(p.PkgPath, e.modPath), "/")
		cf := filepath.Join(repoDir, rel, "zz_contracts_verif.go")
		if _, err := os.Stat(cf); err == nil {
			if err := e.lib.loadFile(cf, p.PkgPath); err != nil {
				return nil, err
			}
		}
	}
	e.rebindRenamedFunctions()
	// every contract must bind to a function
	for _, k := range e.lib.sortedContractKeys() {
		ct := e.lib.Contracts[k]
		if strings.HasPrefix(k, "invoke ") {
			continue
		}
		if e.fnByKey[k] == nil {
			if ct.Trusted {
				continue // assumed contract for a function this build does not reach
			}
			return nil, fmt.Errorf("%s: contract for unknown function %s", ct.Where, k)
		}
	}
	return e, nil
}

func (e *Engine) pkgByName(name string, from *ssa.Package) *ssa.Package {
	if from != nil {
		for _, imp := range from.Pkg.Imports() {
			if imp.Name() == name {
				return e.ssaPkgs[imp.Path()]
			}
		}
		// import aliases: scan the syntax of the package
		for _, p := range e.pkgs {
			if p.PkgPath == from.Pkg.Path() {
				for _, f := range p.Syntax {
					for _, is := range f.Imports {
						if is.Name != nil && is.Name.Name == name {
							path := strings.Trim(is.Path.Value, "\"")
							return e.ssaPkgs[path]
						}
					}
				}
			}
		}
	}
	// by unique package name
	var found *ssa.Package
	for _, p := range e.ssaPkgs {
		if p.Pkg.Name() == name && strings.HasPrefix(p.Pkg.Path(), e.modPath) {
			if found != nil {
				return nil
			}
			found = p
		}
	}
	if found != nil {
		return found
	}
	for _, p := range e.ssaPkgs {
		if p.Pkg.Name() == name && !strings.Contains(p.Pkg.Path(), "/internal/") && !strings.Contains(p.Pkg.Path(), "vendor/") {
			if found != nil && found.Pkg.Path() != p.Pkg.Path() {
				// prefer the shortest path (std)
				if len(p.Pkg.Path()) < len(found.Pkg.Path()) {
					found = p
				}
				continue
			}
			found = p
		}
	}
	return found
}

func (e *Engine) typeByKey(k string) types.Type {
	i := strings.LastIndex(k, ".")
	if i < 0 {
		return nil
	}
	p := e.ssaPkgs[k[:i]]
	if p == nil {
		return nil
	}
	if t, ok := p.Members[k[i+1:]].(*ssa.Type); ok {
		return t.Type()
	}
	return nil
}

// compSortGuess: sort of a heap component that has not been materialised in
// this unit yet (needed when a loop's mod-set names it before first use).
func (e *Engine) compSortGuess(u *Unit, c string) string {
	switch c {
	case "ctr":
		return "Int"
	case "ChRecv", "ChSentN", "ChClosed", "RangePos":
		return "(Array Int Int)"
	case "ChStamp":
		return "(Array Int (Array Int Int))"
	}
	if strings.HasPrefix(c, "GC_") {
		return "(Array Int Int)"
	}
	if strings.HasPrefix(c, "GB_") {
		return "(Array Int (Array Int Int))"
	}
	if s, ok := u.pendingSorts[c]; ok {
		return s
	}
	return ""
}

// blockMods collects (conservatively) the heap components a block may modify,
// looking through calls.
func (e *Engine) blockMods(b *ssa.BasicBlock, out map[string]bool, depth int) {
	for _, ins := range b.Instrs {
		e.instrMods(ins, out, depth)
	}
}

var modsCache = map[*ssa.Function]map[string]bool{}

func (e *Engine) fnMods(fn *ssa.Function, depth int) map[string]bool {
	if m, ok := modsCache[fn]; ok {
		return m
	}
	m := map[string]bool{}
	modsCache[fn] = m // recursion guard
	for _, b := range fn.Blocks {
		e.blockMods(b, m, depth+1)
	}
	return m
}

// modKeyU is set while a unit is being encoded so that component names agree with the unit's naming.
var curUnit *Unit

func rootPointee(v ssa.Value) (types.Type, *ssa.Global, bool) {
	for {
		switch x := v.(type) {
		case *ssa.FieldAddr:
			v = x.X
			continue
		case *ssa.IndexAddr:
			return nil, nil, false
		case *ssa.Global:
			return nil, x, true
		}
		break
	}
	if pt, ok := v.Type().Underlying().(*types.Pointer); ok {
		return pt.Elem(), nil, true
	}
	return nil, nil, false
}

func (e *Engine) instrMods(ins ssa.Instruction, out map[string]bool, depth int) {
	u := curUnit
	note := func(c, s string) {
		out[c] = true
		if u != nil {
			if _, ok := u.pendingSorts[c]; !ok {
				u.pendingSorts[c] = s
			}
		}
	}
	var storeTo func(addr ssa.Value)
	storeTo = func(addr ssa.Value) {
		switch x := addr.(type) {
		case *ssa.FieldAddr:
			storeTo(x.X)
		case *ssa.IndexAddr:
			switch xt := x.X.Type().Underlying().(type) {
			case *types.Slice:
				c, s := u.elemComp(xt.Elem())
				note(c, s)
			case *types.Pointer:
				c, s := u.elemComp(xt.Elem().Underlying().(*types.Array).Elem())
				note(c, s)
			}
		case *ssa.Global:
			c, s := u.globComp(x)
			note(c, s)
		default:
			if pt, ok := addr.Type().Underlying().(*types.Pointer); ok {
				c, s := u.memComp(pt.Elem())
				note(c, s)
			}
		}
	}
	switch x := ins.(type) {
	case *ssa.Store:
		storeTo(x.Addr)
	case *ssa.Alloc, *ssa.MakeSlice, *ssa.MakeMap, *ssa.MakeChan:
		out["ctr"] = true
	case *ssa.MapUpdate:
		mt := x.Map.Type().Underlying().(*types.Map)
		d, ds, v, vs, n, ns := u.mapComps(mt)
		note(d, ds)
		note(v, vs)
		note(n, ns)
	case *ssa.Send:
		ct := x.Chan.Type().Underlying().(*types.Chan)
		c, s := u.chanElemComp(ct)
		note(c, s)
		out["ChSentN"] = true
		note("ChStamp", "(Array Int (Array Int Int))")
	case *ssa.UnOp:
		if x.Op == token.ARROW {
			out["ChRecv"] = true
		}
	case *ssa.Range:
		if _, isM := x.X.Type().Underlying().(*types.Map); isM {
			out["RangePos"] = true
			out["ctr"] = true
		}
	case *ssa.Next:
		if !x.IsString {
			out["RangePos"] = true
		}
	case *ssa.Call:
		e.callMods(&x.Call, out, depth)
	case *ssa.Defer:
		e.callMods(&x.Call, out, depth)
	case *ssa.Go:
		// effects of the spawned goroutine are not sequenced here
	}
}

func (e *Engine) callMods(cc *ssa.CallCommon, out map[string]bool, depth int) {
	u := curUnit
	note := func(c, s string) {
		out[c] = true
		if _, ok := u.pendingSorts[c]; !ok {
			u.pendingSorts[c] = s
		}
	}
	if cc.IsInvoke() {
		key := "invoke " + typeKey(cc.Value.Type()) + "." + cc.Method.Name()
		if ct := e.lib.Contracts[key]; ct != nil {
			e.contractMods(ct, nil, cc, out)
		}
		return
	}
	switch callee := cc.Value.(type) {
	case *ssa.Builtin:
		switch callee.Name() {
		case "append":
			st := cc.Args[0].Type().Underlying().(*types.Slice)
			c, s := u.elemComp(st.Elem())
			note(c, s)
			out["ctr"] = true
		case "copy":
			if st, ok := cc.Args[0].Type().Underlying().(*types.Slice); ok {
				c, s := u.elemComp(st.Elem())
				note(c, s)
			}
		case "close":
			out["ChClosed"] = true
		case "delete":
			mt := cc.Args[0].Type().Underlying().(*types.Map)
			d, ds, _, _, n, ns := u.mapComps(mt)
			note(d, ds)
			note(n, ns)
		}
	case *ssa.Function:
		key := callee.String()
		ct := e.lib.Contracts[key]
		if ct != nil && !ct.Inline {
			e.contractMods(ct, callee, cc, out)
			return
		}
		if callee.Blocks != nil && e.inRepo(callee) && depth < maxInlineDepth {
			for c := range e.fnMods(callee, depth) {
				out[c] = true
			}
		}
	}
}

// contractMods maps a modifies clause to components using static types.
func (e *Engine) contractMods(ct *Contract, callee *ssa.Function, cc *ssa.CallCommon, out map[string]bool) {
	u := curUnit
	if ct.Pure {
		return
	}
	out["ctr"] = true
	for _, m := range ct.Modifies {
		for _, c := range e.modTargetComps(u, ct, callee, cc, m.Expr) {
			out[c[0]] = true
			if _, ok := u.pendingSorts[c[0]]; !ok {
				u.pendingSorts[c[0]] = c[1]
			}
		}
	}
}

// staticTypeOf types a modifies-target expression using the callee's parameter types.
func (e *Engine) staticTypeOf(callee *ssa.Function, cc *ssa.CallCommon, x ast.Expr) types.Type {
	switch n := x.(type) {
	case *ast.ParenExpr:
		return e.staticTypeOf(callee, cc, n.X)
	case *ast.Ident:
		if callee != nil {
			for _, p := range callee.Params {
				if p.Name() == n.Name {
					return p.Type()
				}
			}
		}
		if n.Name == "self" && cc != nil {
			if cc.IsInvoke() {
				return cc.Value.Type()
			}
			if len(cc.Args) > 0 {
				return cc.Args[0].Type()
			}
		}
		if cc != nil && strings.HasPrefix(n.Name, "a") {
			var i int
			if _, err := fmt.Sscanf(n.Name, "a%d", &i); err == nil {
				k := i
				if cc.Signature().Recv() != nil && !cc.IsInvoke() {
					k++
				}
				if k < len(cc.Args) {
					return cc.Args[k].Type()
				}
			}
		}
	case *ast.SelectorExpr:
		t := e.staticTypeOf(callee, cc, n.X)
		if t == nil {
			return nil
		}
		if st, ok := derefType(t).Underlying().(*types.Struct); ok {
			for i := 0; i < st.NumFields(); i++ {
				if st.Field(i).Name() == n.Sel.Name {
					return st.Field(i).Type()
				}
			}
		}
	case *ast.StarExpr:
		t := e.staticTypeOf(callee, cc, n.X)
		if t != nil {
			return derefType(t)
		}
	}
	return nil
}

func (e *Engine) modTargetComps(u *Unit, ct *Contract, callee *ssa.Function, cc *ssa.CallCommon, x ast.Expr) [][2]string {
	if call, ok := x.(*ast.CallExpr); ok {
		fn, _ := call.Fun.(*ast.Ident)
		if fn == nil {
			return nil
		}
		switch fn.Name {
		case "elems":
			t := e.staticTypeOf(callee, cc, call.Args[0])
			if t == nil {
				return nil
			}
			// owned backing store of a type declared in another package is invisible here
			if sel, ok := call.Args[0].(*ast.SelectorExpr); ok {
				if bt := e.staticTypeOf(callee, cc, sel.X); bt != nil {
					if n, ok := derefType(bt).(*types.Named); ok {
						if ts := e.lib.Types[typeKey(n)]; ts != nil && contains(ts.Owned, sel.Sel.Name) {
							if u.fn.Pkg == nil || n.Obj().Pkg() != u.fn.Pkg.Pkg {
								return nil
							}
						}
					}
				}
			}
			if st, ok := t.Underlying().(*types.Slice); ok {
				c, s := u.elemComp(st.Elem())
				return [][2]string{{c, s}}
			}
		case "recv":
			return [][2]string{{"ChRecv", "(Array Int Int)"}}
		case "sent":
			t := e.staticTypeOf(callee, cc, call.Args[0])
			if cht, ok := t.Underlying().(*types.Chan); ok {
				c, s := u.chanElemComp(cht)
				return [][2]string{{c, s}, {"ChSentN", "(Array Int Int)"}, {"ChStamp", "(Array Int (Array Int Int))"}}
			}
		case "closed":
			return [][2]string{{"ChClosed", "(Array Int Int)"}}
		case "gc", "gb":
			if lit, ok := call.Args[0].(*ast.BasicLit); ok {
				nm := strings.Trim(lit.Value, "\"")
				if fn.Name == "gc" {
					return [][2]string{{"GC_" + mangle(nm), "(Array Int Int)"}}
				}
				return [][2]string{{"GB_" + mangle(nm), "(Array Int (Array Int Int))"}}
			}
		case "sentall":
			t := e.staticTypeOf(callee, cc, call.Args[0])
			if t != nil {
				if st, ok := t.Underlying().(*types.Slice); ok {
					if cht, ok := st.Elem().Underlying().(*types.Chan); ok {
						c, s := u.chanElemComp(cht)
						return [][2]string{{c, s}, {"ChSentN", "(Array Int Int)"}, {"ChStamp", "(Array Int (Array Int Int))"}}
					}
				}
			}
		case "mapof":
			t := e.staticTypeOf(callee, cc, call.Args[0])
			if mt, ok := t.Underlying().(*types.Map); ok {
				d, ds, v, vs, n, ns := u.mapComps(mt)
				return [][2]string{{d, ds}, {v, vs}, {n, ns}}
			}
		}
		return nil
	}
	// p or p.f
	if sel, ok := x.(*ast.SelectorExpr); ok {
		t := e.staticTypeOf(callee, cc, sel.X)
		if t != nil {
			if _, isPtr := t.Underlying().(*types.Pointer); isPtr {
				c, s := u.memComp(derefType(t))
				return [][2]string{{c, s}}
			}
		}
		return e.modTargetComps(u, ct, callee, cc, sel.X)
	}
	t := e.staticTypeOf(callee, cc, x)
	if t != nil {
		if _, isPtr := t.Underlying().(*types.Pointer); isPtr {
			c, s := u.memComp(derefType(t))
			return [][2]string{{c, s}}
		}
	}
	return nil
}
