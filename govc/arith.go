package main

// Integer arithmetic in the two modes.
//   int mode: Go integers are SMT Ints; + - * are mathematical, and the
//             executor emits no-wrap obligations separately.
//   bv mode:  Go integers are fixed-width bit-vectors with Go's semantics.

import (
	"fmt"
	"go/token"
	"go/types"
	"math/big"
	"strings"
)

func isBVSort(s string) bool { return strings.HasPrefix(s, "(_ BitVec") }

func bvWidth(s string) uint {
	var w uint
	fmt.Sscanf(s, "(_ BitVec %d)", &w)
	return w
}

func bvLit(v *big.Int, w uint) string {
	m := new(big.Int).Mod(v, pow2(w))
	return fmt.Sprintf("(_ bv%s %d)", m.String(), w)
}

// isSigned reports whether Go type t is a signed integer (default true when unknown).
func isSigned(t types.Type) bool {
	if t == nil {
		return true
	}
	_, s, ok := intInfo(t)
	if !ok {
		return true
	}
	return s
}

// goDiv / goMod: Go's truncated division on mathematical integers.
func goDiv(a, b string) string {
	if y, ok := parseLit(b); ok && y.Sign() > 0 {
		if x, ok := parseLit(a); ok {
			return ilitB(new(big.Int).Quo(x, y))
		}
		return ite(app(">=", a, "0"), app("div", a, b), app("-", app("div", app("-", a), b)))
	}
	return ite(app(">=", a, "0"),
		ite(app(">", b, "0"), app("div", a, b), app("-", app("div", a, app("-", b)))),
		ite(app(">", b, "0"), app("-", app("div", app("-", a), b)), app("div", app("-", a), app("-", b))))
}

func goMod(a, b string) string {
	if y, ok := parseLit(b); ok && y.Sign() > 0 {
		if x, ok := parseLit(a); ok {
			return ilitB(new(big.Int).Rem(x, y))
		}
	}
	return app("-", a, app("*", b, goDiv(a, b)))
}

// binop computes the Go binary operation on integer operands of Go type t.
// In int mode the result of + - * << is the mathematical value; wrap holds the
// condition under which it is representable (or "" when no check is needed).
func (u *Unit) intBinop(op token.Token, a, b string, t types.Type, bt types.Type) (res string, wrapOK string, err string) {
	so := u.so
	bits, signed, _ := intInfo(t)
	if so.bv {
		w := bits
		// shift counts may have a different width: adapt
		switch op {
		case token.SHL, token.SHR:
			bw, _, _ := intInfo(bt)
			if bw < w {
				b = fmt.Sprintf("((_ zero_extend %d) %s)", w-bw, b)
			} else if bw > w {
				// count >= w yields 0 / sign; saturate
				tooBig := app("bvuge", b, bvLit(new(big.Int).SetUint64(uint64(w)), bw))
				b = ite(tooBig, bvLit(new(big.Int).SetUint64(uint64(w)), w), fmt.Sprintf("((_ extract %d 0) %s)", w-1, b))
			}
			if op == token.SHL {
				return app("bvshl", a, b), "", ""
			}
			if signed {
				return app("bvashr", a, b), "", ""
			}
			return app("bvlshr", a, b), "", ""
		}
		switch op {
		case token.ADD:
			return app("bvadd", a, b), "", ""
		case token.SUB:
			return app("bvsub", a, b), "", ""
		case token.MUL:
			return app("bvmul", a, b), "", ""
		case token.QUO:
			if signed {
				return app("bvsdiv", a, b), "", ""
			}
			return app("bvudiv", a, b), "", ""
		case token.REM:
			if signed {
				return app("bvsrem", a, b), "", ""
			}
			return app("bvurem", a, b), "", ""
		case token.AND:
			return app("bvand", a, b), "", ""
		case token.OR:
			return app("bvor", a, b), "", ""
		case token.XOR:
			return app("bvxor", a, b), "", ""
		case token.AND_NOT:
			return app("bvand", a, app("bvnot", b)), "", ""
		}
		return "", "", "bv binop " + op.String()
	}
	lo, hi := intRange(t)
	inRange := func(r string) string {
		if v, ok := parseLit(r); ok {
			if v.Cmp(lo) >= 0 && v.Cmp(hi) <= 0 {
				return ""
			}
			return "false"
		}
		return and(app("<=", ilitB(lo), r), app("<=", r, ilitB(hi)))
	}
	switch op {
	case token.ADD:
		r := iadd(a, b)
		return r, inRange(r), ""
	case token.SUB:
		r := isub(a, b)
		return r, inRange(r), ""
	case token.MUL:
		r := imul(a, b)
		return r, inRange(r), ""
	case token.QUO:
		if signed {
			return goDiv(a, b), "", ""
		}
		if y, ok := parseLit(b); ok && y.Sign() > 0 {
			return idivc(a, y), "", ""
		}
		return app("div", a, b), "", ""
	case token.REM:
		if signed {
			return goMod(a, b), "", ""
		}
		if y, ok := parseLit(b); ok && y.Sign() > 0 {
			return imodc(a, y), "", ""
		}
		return app("mod", a, b), "", ""
	case token.SHL:
		if k, ok := parseLit(b); ok && k.Sign() >= 0 && k.Cmp(big.NewInt(int64(bits))) < 0 {
			r := imul(a, ilitB(pow2(uint(k.Uint64()))))
			if signed {
				return r, inRange(r), ""
			}
			// unsigned shift left discards high bits: exact
			if v, ok := parseLit(r); ok {
				return ilitB(new(big.Int).Mod(v, pow2(bits))), "", ""
			}
			return r, inRange(r), ""
		}
		return "", "", "symbolic shift count in int mode"
	case token.SHR:
		if k, ok := parseLit(b); ok && k.Sign() >= 0 {
			if k.Cmp(big.NewInt(int64(bits))) >= 0 {
				if signed {
					return ite(app("<", a, "0"), "(- 1)", "0"), "", ""
				}
				return "0", "", ""
			}
			return idivc(a, pow2(uint(k.Uint64()))), "", ""
		}
		return "", "", "symbolic shift count in int mode"
	case token.AND, token.AND_NOT:
		m, ok := parseLit(b)
		x := a
		if !ok {
			if m2, ok2 := parseLit(a); ok2 && op == token.AND {
				m, ok, x = m2, true, b
			}
		}
		if !ok {
			return "", "", "bitwise and with symbolic mask in int mode"
		}
		if m.Sign() < 0 {
			m = new(big.Int).Mod(m, pow2(bits))
		}
		if op == token.AND_NOT {
			full := new(big.Int).Sub(pow2(bits), big.NewInt(1))
			m = new(big.Int).AndNot(full, m)
		}
		// unsigned representation of x
		ux := x
		if signed {
			ux = imodc(x, pow2(bits))
		}
		r := maskRuns(ux, m, bits)
		if signed && m.Bit(int(bits-1)) == 1 {
			// result may have the sign bit: convert back
			r = ite(app(">=", r, ilitB(pow2(bits-1))), isub(r, ilitB(pow2(bits))), r)
		}
		return r, "", ""
	}
	return "", "", "int binop " + op.String()
}

// maskRuns encodes x & m for a constant mask m over non-negative x < 2^bits.
func maskRuns(x string, m *big.Int, bits uint) string {
	res := "0"
	i := uint(0)
	for i < bits {
		if m.Bit(int(i)) == 0 {
			i++
			continue
		}
		j := i
		for j < bits && m.Bit(int(j)) == 1 {
			j++
		}
		// run [i, j)
		part := idivc(x, pow2(i))
		if j < bits {
			part = imodc(part, pow2(j-i))
		}
		part = imul(part, ilitB(pow2(i)))
		res = iadd(res, part)
		i = j
	}
	return res
}

func (u *Unit) intCmp(op token.Token, a, b string, t types.Type) string {
	if u.so.bv {
		if _, _, ok := intInfo(t); ok {
			signed := isSigned(t)
			switch op {
			case token.EQL:
				return eq(a, b)
			case token.NEQ:
				return not(eq(a, b))
			case token.LSS:
				if signed {
					return app("bvslt", a, b)
				}
				return app("bvult", a, b)
			case token.LEQ:
				if signed {
					return app("bvsle", a, b)
				}
				return app("bvule", a, b)
			case token.GTR:
				if signed {
					return app("bvsgt", a, b)
				}
				return app("bvugt", a, b)
			case token.GEQ:
				if signed {
					return app("bvsge", a, b)
				}
				return app("bvuge", a, b)
			}
		}
	}
	switch op {
	case token.EQL:
		return eq(a, b)
	case token.NEQ:
		return not(eq(a, b))
	case token.LSS:
		return icmp("<", a, b)
	case token.LEQ:
		return icmp("<=", a, b)
	case token.GTR:
		return icmp(">", a, b)
	case token.GEQ:
		return icmp(">=", a, b)
	}
	panic("intCmp " + op.String())
}

// convertInt converts integer x of type from to type to with Go's semantics.
func (u *Unit) convertInt(x string, from, to types.Type) string {
	fb, fs, _ := intInfo(from)
	tb, ts, _ := intInfo(to)
	if u.so.bv {
		switch {
		case tb == fb:
			return x
		case tb < fb:
			return fmt.Sprintf("((_ extract %d 0) %s)", tb-1, x)
		default:
			if fs {
				return fmt.Sprintf("((_ sign_extend %d) %s)", tb-fb, x)
			}
			return fmt.Sprintf("((_ zero_extend %d) %s)", tb-fb, x)
		}
	}
	flo, fhi := intRange(from)
	tlo, thi := intRange(to)
	if flo.Cmp(tlo) >= 0 && fhi.Cmp(thi) <= 0 {
		return x // widening
	}
	if v, ok := parseLit(x); ok {
		m := new(big.Int).Mod(v, pow2(tb))
		if ts && m.Cmp(pow2(tb-1)) >= 0 {
			m.Sub(m, pow2(tb))
		}
		return ilitB(m)
	}
	// exact wrap, with the common in-range case first
	m := imodc(x, pow2(tb))
	w := m
	if ts {
		w = ite(app(">=", m, ilitB(pow2(tb-1))), isub(m, ilitB(pow2(tb))), m)
	}
	return ite(and(app("<=", ilitB(tlo), x), app("<=", x, ilitB(thi))), x, w)
}

// convertIntWrap wraps a mathematical result into the range of Go type t.
func (u *Unit) convertIntWrap(x string, t types.Type) string {
	bits, signed, _ := intInfo(t)
	lo, hi := intRange(t)
	if v, ok := parseLit(x); ok {
		m := new(big.Int).Mod(v, pow2(bits))
		if signed && m.Cmp(pow2(bits-1)) >= 0 {
			m.Sub(m, pow2(bits))
		}
		return ilitB(m)
	}
	m := imodc(x, pow2(bits))
	w := m
	if signed {
		w = ite(app(">=", m, ilitB(pow2(bits-1))), isub(m, ilitB(pow2(bits))), m)
	}
	return ite(and(app("<=", ilitB(lo), x), app("<=", x, ilitB(hi))), x, w)
}
