package main

// Unit: one verification unit (a function checked against its contract).
// It accumulates SMT-LIB lines (declarations, definitions, assumptions) in
// program order; each obligation remembers how long the prefix was when it
// was generated, so that a query is "prefix + negated goal".

import (
	"fmt"
	"go/token"
	"go/types"
	"sort"
	"strings"

	"golang.org/x/tools/go/ssa"
)

type Oblig struct {
	Name    string   // stable name: pkg.Func/kind#n
	Kind    string   // post, pre@call, inv-init, ...
	Fn      string   // function under contract
	Props   []string // property ids served (empty = shared support)
	Clause  string   // source text of the clause / description
	Pos     string   // source position (informational)
	Goal    string   // Bool term to prove valid under the prefix
	Prefix  int      // number of lines of the unit that precede it
	Unit    *Unit
	Extra   []string // extra lines specific to this obligation (inserted after prefix)
	Result  string   // unsat / sat / unknown / timeout / error
	Solver  string
	Ms      int64
	Model   string
	ExpectSat bool // vacuity check: "sat" is the good answer
	Structural bool // decided by a CFG / use-def analysis, not SMT
	Detail  string
	Raw     string // complete SMT-LIB query (spec-level lemmas)
}

type Heap map[string]string

func (h Heap) clone() Heap {
	n := Heap{}
	for k, v := range h {
		n[k] = v
	}
	return n
}

type Unit struct {
	eng     *Engine
	fn      *ssa.Function
	ct      *Contract
	so      *Sorts
	lines   []string
	nfresh  int
	obls    []*Oblig
	comps   map[string]string // comp -> sort
	compInit map[string]string // comp -> initial const name
	kindCount map[string]int
	assumed map[string]bool // trusted / assumed contracts used
	inlined map[string]bool
	called  map[string]bool // contracted callees used
	unsupported []string
	safety  bool // generate safety obligations (index, nil, ...)
	nowrap  bool
	declFuns map[string]bool
	name    string
	curPos  token.Pos
	bitsApps map[string]bool
	globalsAssumed bool
	pendingSorts map[string]string
	prop string
	splits []splitInfo
	globalsUsed map[string]bool
	bvCallees map[string]bool
	seqElemTypes map[string]types.Type
	axiomsDone map[string]bool
	valParamTypes map[string]types.Type
	opaque     map[string]bool   // predicates hidden in this unit (contract directive "opaque")
	hiddenDefs map[string]string // their definitional axioms, added only to obligations that reveal them
	curReveal  []string          // predicates revealed to the obligations being generated
	lemmasUsed map[string]bool // proved lemmas instantiated as axioms in this unit
	lemmaLimit int             // when proving lemma number k: only lemmas declared before it are available (0 = all)
	forceMod bool
}

type splitInfo struct {
	term   string
	sort   string
	lo, hi int
	from   int // index into u.obls: obligations from here on are split
	reach  string
	text   string
}

func (e *Engine) newUnit(fn *ssa.Function, ct *Contract, name string) *Unit {
	bv := ct != nil && ct.Mode == "bv"
	u := &Unit{eng: e, fn: fn, ct: ct, so: newSorts(bv), comps: map[string]string{}, compInit: map[string]string{},
		kindCount: map[string]int{}, assumed: map[string]bool{}, inlined: map[string]bool{}, called: map[string]bool{},
		safety: true, nowrap: true, declFuns: map[string]bool{}, name: name, bitsApps: map[string]bool{}, pendingSorts: map[string]string{}, globalsUsed: map[string]bool{}, bvCallees: map[string]bool{}}
	if ct != nil && len(ct.Opaque) > 0 {
		u.opaque = map[string]bool{}
		u.hiddenDefs = map[string]string{}
		for _, p := range ct.Opaque {
			u.opaque[p] = true
		}
	}
	return u
}

// sequential: the conjuncts of the invariants at one program point are proved in the order
// written, each assuming the earlier ones (contract directive "sequential").
func (u *Unit) sequential() bool { return u.ct != nil && u.ct.Sequential }

func (u *Unit) emit(line string) { u.lines = append(u.lines, line) }

func (u *Unit) assume(f string) {
	if f == "true" || f == "" {
		return
	}
	u.emit("(assert " + f + ")")
}

func (u *Unit) fresh(prefix, sort string) string {
	u.nfresh++
	n := fmt.Sprintf("%s!%d", mangle(prefix), u.nfresh)
	u.emit(fmt.Sprintf("(declare-const %s %s)", n, sort))
	return n
}

// define introduces a named constant equal to term (keeps queries linear in size).
func (u *Unit) define(prefix, sort, term string) string {
	if isAtom(term) {
		return term
	}
	n := u.fresh(prefix, sort)
	u.emit(fmt.Sprintf("(assert (= %s %s))", n, term))
	return n
}

func isAtom(t string) bool {
	if t == "" {
		return true
	}
	if t[0] != '(' {
		return true
	}
	if _, ok := parseLit(t); ok {
		return true
	}
	if strings.HasPrefix(t, "(_ bv") {
		return true
	}
	return false
}

func (u *Unit) declFun(name, sig string) {
	if u.declFuns[name] {
		return
	}
	u.declFuns[name] = true
	u.emit(fmt.Sprintf("(declare-fun %s %s)", name, sig))
}

// comp returns the current term for heap component c in heap h, declaring the
// initial version on first use.
func (u *Unit) comp(h Heap, c, sort string) string {
	if h == nil {
		panic(specError{"heap access (" + c + ") inside an opaque predicate body"})
	}
	if v, ok := h[c]; ok {
		return v
	}
	if _, ok := u.comps[c]; !ok {
		u.comps[c] = sort
		n := "H0_" + mangle(c)
		u.compInit[c] = n
		u.emit(fmt.Sprintf("(declare-const %s %s)", n, sort))
	}
	return u.compInit[c]
}

func (u *Unit) oblig(kind, clause, goal string, props []string) *Oblig {
	u.kindCount[kind]++
	o := &Oblig{
		Name:   fmt.Sprintf("%s/%s#%d", u.name, kind, u.kindCount[kind]),
		Kind:   kind,
		Fn:     u.name,
		Props:  props,
		Clause: clause,
		Goal:   goal,
		Prefix: len(u.lines),
		Unit:   u,
	}
	for _, p := range u.curReveal {
		if d, ok := u.hiddenDefs[p]; ok {
			o.Extra = append(o.Extra, d)
		}
	}
	if u.curPos.IsValid() {
		p := u.eng.prog.Fset.Position(u.curPos)
		o.Pos = fmt.Sprintf("%s:%d", shortPath(p.Filename), p.Line)
	}
	u.obls = append(u.obls, o)
	return o
}

func shortPath(p string) string {
	if i := strings.Index(p, "/rtcm/"); i >= 0 {
		return p[i+1:]
	}
	if i := strings.Index(p, "/apps/"); i >= 0 {
		return p[i+1:]
	}
	if i := strings.LastIndex(p, "/"); i >= 0 {
		return p[i+1:]
	}
	return p
}

func (u *Unit) unsupportedAt(reach, msg string) {
	u.unsupported = append(u.unsupported, msg)
	o := u.oblig("unsupported", msg, implies(reach, "false"), nil)
	_ = o
}

// query renders the SMT-LIB text for an obligation.
func (o *Oblig) query(timeoutHint int) string {
	if o.Raw != "" {
		return o.Raw
	}
	u := o.Unit
	var b strings.Builder
	b.WriteString("; obligation " + o.Name + "\n; clause: " + strings.ReplaceAll(o.Clause, "\n", " ") + "\n")
	b.WriteString("(set-option :produce-models true)\n")
	b.WriteString("(set-logic ALL)\n")
	for _, l := range u.so.preamble() {
		b.WriteString(l + "\n")
	}
	for _, l := range u.lines[:o.Prefix] {
		b.WriteString(l + "\n")
	}
	for _, l := range o.Extra {
		b.WriteString(l + "\n")
	}
	if o.ExpectSat {
		b.WriteString("(assert " + o.Goal + ")\n")
	} else {
		b.WriteString("(assert (not " + o.Goal + "))\n")
	}
	b.WriteString("(check-sat)\n")
	return b.String()
}

// ---- type constraints on symbolic inputs -------------------------------------

// typeInv returns the constraint that v is a valid value of Go type t
// (integer range, slice shape, allocated references).
func (u *Unit) typeInv(v string, t types.Type, ctr string) string {
	if t == nil {
		return "true"
	}
	if isTime(t) {
		return "true"
	}
	so := u.so
	switch ut := t.Underlying().(type) {
	case *types.Basic:
		if _, _, ok := intInfo(ut); ok && !so.bv {
			lo, hi := intRange(ut)
			return and(icmp("<=", ilitB(lo), v), icmp("<=", v, ilitB(hi)))
		}
		if ut.Kind() == types.String {
			return app(">=", app("strlen", v), "0")
		}
	case *types.Pointer:
		if u.interior(ut.Elem()) {
			return app("<=", v, ctr) // negative values encode pointers to slice elements
		}
		return and(app("<=", "0", v), app("<=", v, ctr))
	case *types.Map, *types.Chan:
		return and(app("<=", "0", v), app("<=", v, ctr))
	case *types.Slice:
		if so.bv {
			arr := app("s_arr", v)
			// lengths are non-negative as signed 64-bit numbers
			return and(app("<=", "0", arr), app("<=", arr, ctr),
				app("bvsle", "(_ bv0 64)", app("s_len", v)), app("bvsle", app("s_len", v), app("s_cap", v)),
				app("bvsle", "(_ bv0 64)", app("s_off", v)),
				app("bvult", app("s_cap", v), "(_ bv72057594037927936 64)"),
				app("bvult", app("s_off", v), "(_ bv72057594037927936 64)"),
				implies(eq(arr, "0"), and(eq(app("s_len", v), "(_ bv0 64)"), eq(app("s_cap", v), "(_ bv0 64)"))))
		}
		arr := app("s_arr", v)
		return and(app("<=", "0", arr), app("<=", arr, ctr),
			app("<=", "0", app("s_off", v)), app("<=", "0", app("s_len", v)), app("<=", app("s_len", v), app("s_cap", v)),
			app("<=", app("s_cap", v), "72057594037927936"),
			implies(eq(arr, "0"), and(eq(app("s_len", v), "0"), eq(app("s_cap", v), "0"))))
	case *types.Interface:
		return and(app("<=", "0", app("i_tag", v)), implies(eq(app("i_tag", v), "0"), eq(app("i_val", v), "0")))
	case *types.Struct:
		name := so.sortOf(t)
		var cs []string
		for i := 0; i < ut.NumFields(); i++ {
			cs = append(cs, u.typeInv(so.getField(name, v, i), ut.Field(i).Type(), ctr))
		}
		return and(cs...)
	}
	return "true"
}

func sortedKeys(m map[string]bool) []string {
	var ks []string
	for k := range m {
		ks = append(ks, k)
	}
	sort.Strings(ks)
	return ks
}

// propDeps: a property's proof may rely on clauses tagged with the properties it builds on.
var propDeps = map[string][]string{
	"C03": {"C02"},
	"C12": {"C02", "C03"},
	"C09": {"C02", "C03"},
	// C13: "the data received so far is still delivered (a partial frame as non-RTCM) and the output
	// channel is closed" is the framing stage's lossless-segmentation clause at end of input
	"C13": {"C02", "C03"},
	"C10": {"C09", "C02", "C03", "C01"},
	"C11": {"C10", "C09", "C02", "C03", "C01"},
	"C04b": {"C04"},
	// C20: the classifications agree "across the library", including the type under which the stream
	// handler delivers a frame (the framing rule of C03: a valid frame comes out under its own type)
	"C20": {"C03", "C02", "C04"},
	// C19: "parsing the traffic ... never ... withholds or stops the relayed stream": the parser the
	// proxy starts consumes its whole input (the lossless-segmentation clauses of the framing stage)
	"C19": {"C02", "C18"}, // ... and the report lists the messages the queue holds (C18 clauses)
}

// propSupport: clauses of these properties are active inside the cone of the key property
// without widening the cone (no additional roots).
// Every property of the library is a statement about all inputs ("is rejected with an error",
// "is delivered", "decodes to"): a function that panics on some input does not satisfy it there.
// So inside the cone of each library property the safety obligations count as well (total
// correctness of the functions the property is about), with the C07 clauses as support.
var propSupport = map[string][]string{
	"C01": {"C07"}, "C02": {"C07"}, "C03": {"C07"}, "C04": {"C07"}, "C04b": {"C07"}, "C05": {"C07"}, "C06": {"C07"}, "C08": {"C07"},
	"C12": {"C07"}, "C14": {"C07"}, "C17": {"C07"}, "C20": {"C07"},
	// C19: "parsing the traffic ... never ... stops the relayed stream": the parser goroutine the proxy
	// starts must not panic
	"C19": {"C07"},
	// the same for the reader-to-sinks pipeline (C09) and the filter built on it (C10, C11):
	// "after the source is exhausted the call returns" and the output statements hold for every
	// byte stream only if the framing stage survives it
	"C09": {"C07"}, "C10": {"C07"}, "C11": {"C07"}, "C13": {"C07"},
}

// active reports whether a clause with the given property tags takes part in
// the proof of the property this unit is generated for.
func (u *Unit) active(props []string) bool {
	if len(props) == 0 || u.prop == "" {
		return true
	}
	for _, p := range props {
		if p == u.prop || contains(propDeps[u.prop], p) || contains(propSupport[u.prop], p) {
			return true
		}
	}
	return false
}
