package main

// Contract files: Gobra-style "//@" lines in comment-only Go files
// (zz_contracts_verif.go, build tag verif) inside the package they describe,
// plus shared specification files /verif/spec/*.spec with the same syntax.

import (
	"bufio"
	"fmt"
	"go/ast"
	"go/parser"
	"os"
	"path/filepath"
	"regexp"
	"sort"
	"strconv"
	"strings"
)

type Clause struct {
	Props  []string
	Reveal []string // opaque predicates whose definition this clause's obligations may use
	Text  string
	Expr  ast.Expr
	Where string
}

// SpawnSpec: "spawns[Cxx] f, g": every goroutine the function starts runs (directly, or as the
// body of a function literal) only these functions of the repository.
type SpawnSpec struct {
	Props []string
	Names []string
	Where string
}

type LoopSpec struct {
	Split     *Clause // case split on an expression over lo..hi (complete: split-cover obligation)
	SplitLo, SplitHi int
	Ordinal   int
	Invs      []*Clause
	Decreases *Clause
	Lets      []*Let
}

type Let struct {
	Name  string
	Expr  ast.Expr
	Text  string
	Where string
}

type Contract struct {
	Key      string // canonical function key
	Pkg      string
	Requires []*Clause
	Ensures  []*Clause
	Modifies []*Clause // each an lvalue expression; HasModifies distinguishes "none listed"
	HasModifies bool
	Loops    map[int]*LoopSpec
	Lets     []*Let // ghost abbreviations evaluated in the entry state
	Mode     string
	Inline   bool
	Trusted  bool // assume-contract: body not verified
	Pure     bool // no heap effect at all (frame: everything unchanged)
	Where    string
	Props    map[string]bool
	NoSafety bool
	Asserts  []*Clause
	Splits   []*Clause // case-split hints: each expression E yields two variants of every obligation (E / !E)
	Ghosts   []string // universally quantified ghost parameters ("name sort")
	FreshResult bool
	Sequential bool   // invariant conjuncts are proved in order, each assuming the earlier ones
	BitsDef bool      // give bits()/sbits() at symbolic positions their byte-arithmetic definition (default: range only)
	Spawns      []*SpawnSpec // stages the function may start as goroutines (structural obligation spawn-wiring)
	RenamedFrom string // the name the function had on the unchanged tree, when the contract was rebound
	Opaque  []string  // predicates whose definitions are hidden except in clauses marked {reveal P}
	Uses    []*Clause // lemma instantiations assumed at entry (each must be a proved lemma/axiom instance)
	NoTerm  string    // reason why a loop of this function has no termination measure (service loop)
	AtCalls []*AtCall // obligations on the arguments of calls made by this function (argument flow)
	Wrap    bool    // "arith wrap": + - * are encoded with exact wrap-around instead of no-wrap obligations
	FnSplit *Clause // function-level case split (over the entry state)
	FnSplitLo, FnSplitHi int
	Stamps  []*Stamp  // ghost stamps recorded at every send on a channel
	Exports []*Clause // int-mode postconditions of a bv-mode function (justified by bridge obligations)
}

// AtCall: "atcall[Cxx] <callee> /regex/: cond" - at every call of callee in this
// function whose first argument is a string constant matching regex, cond must
// hold; a0, a1, ... are the arguments, argreal(s, k) / argint(s, k) / argstr(s, k)
// read element k of a variadic ...interface{} argument s.
type AtCall struct {
	Callee string
	Re     *regexp.Regexp
	Clause *Clause
}

// Stamp: "stamp ch: expr" records the value of expr (an Int) alongside every
// element this function sends on channel ch (ghost history, see stamp()).
type Stamp struct {
	Chan  ast.Expr
	Expr  ast.Expr
	Text  string
	Where string
}

type Macro struct {
	Name   string
	Params []string
	Body   ast.Expr
	Text   string
	Where  string
}

// Pred: an opaque predicate "defpred name(p: Sort, ...) = body".  It is declared
// as an uninterpreted function with a definitional axiom triggered on its
// applications, so that solvers unfold it only where it is mentioned.
type Pred struct {
	Ret    string // "Bool" for predicates, "Int" for recursive integer functions (recfun)
	Name   string
	Params []string
	Sorts  []string
	Body   ast.Expr
	Text   string
	Where  string
}

type UFDecl struct {
	Name string
	Args []string
	Ret  string
	Where string
}

type Axiom struct {
	Name    string
	Trigger []string // UF names whose presence makes the axiom relevant
	Text    string
	Expr    ast.Expr
	Where   string
	Lemma   bool // proved by the engine (as an obligation) rather than assumed
	Params  []string   // lemma parameters
	Sorts   []string   // their sorts ("Int" unless written "p: (Array Int Int)")
	By      string     // induction variable of a lemma ("" = no induction)
	Pats    []ast.Expr // trigger terms of a lemma (multi-pattern)
	Index   int        // declaration order (a lemma may use earlier lemmas only)
	Aux     bool       // auxiliary lemma: used only in the proofs of later lemmas
	Raw     string // raw SMT-LIB text (rawaxiom)
}

type TypeSpec struct {
	Key   string // pkgpath.TypeName
	Invs  []*Clause
	Owned []string // field names whose backing store is private to the type
	Models map[string]*Macro // model fields: name -> macro with one param (the receiver)
	Guarded map[string]string // field -> mutex field
}

type GlobalInv struct {
	Pkg   string
	Clause *Clause
}

type SpecLib struct {
	Contracts map[string]*Contract
	Macros    map[string]*Macro
	UFs       map[string]*UFDecl
	Axioms    []*Axiom
	Types     map[string]*TypeSpec
	Globals   []*GlobalInv
	Files     []string
	Preds     map[string]*Pred
}

func newSpecLib() *SpecLib {
	return &SpecLib{Contracts: map[string]*Contract{}, Macros: map[string]*Macro{}, UFs: map[string]*UFDecl{}, Types: map[string]*TypeSpec{}, Preds: map[string]*Pred{}}
}

var revealRe = regexp.MustCompile(`^\{reveal ([A-Za-z0-9_, ]+)\}\s*`)
var propRe = regexp.MustCompile(`^\[([A-Za-z0-9, ]+)\]\s*`)

var keywords = map[string]bool{
	"func": true, "type": true, "requires": true, "ensures": true, "modifies": true, "invariant": true,
	"decreases": true, "loop": true, "mode": true, "inline": true, "opaque": true, "bitsdef": true, "spawns": true, "sequential": true, "assume-contract": true, "pure": true,
	"let": true, "define": true, "declare": true, "axiom": true, "lemma": true, "auxlemma": true, "owned": true, "model": true,
	"global": true, "nosafety": true, "assert": true, "split": true, "guarded_by": true, "ghostparam": true,
	"fresh-result": true, "use": true, "exports": true, "rawaxiom": true, "stamp": true, "defpred": true, "recfun": true, "arith": true, "atcall": true, "noterm": true,
}

// rewriteImplies turns the infix "A ==> B" (lowest precedence, right
// associative) into implies(A, B) so that go/parser can read the rest.
func rewriteImplies(s string) string {
	// split at top-level (paren depth 0) occurrences of ==>
	depth := 0
	inStr := false
	for i := 0; i+2 < len(s); i++ {
		c := s[i]
		if inStr {
			if c == '\\' {
				i++
			} else if c == '"' {
				inStr = false
			}
			continue
		}
		switch c {
		case '"':
			inStr = true
		case '(', '[':
			depth++
		case ')', ']':
			depth--
		case '=':
			if depth == 0 && s[i:i+3] == "==>" {
				return "implies(" + rewriteInner(s[:i]) + ", " + rewriteImplies(s[i+3:]) + ")"
			}
		}
	}
	return rewriteInner(s)
}

// rewriteInner handles ==> nested inside parentheses / call arguments.
func rewriteInner(s string) string {
	if !strings.Contains(s, "==>") {
		return s
	}
	var b strings.Builder
	i := 0
	for i < len(s) {
		c := s[i]
		if c == '"' {
			j := i + 1
			for j < len(s) && s[j] != '"' {
				if s[j] == '\\' {
					j++
				}
				j++
			}
			b.WriteString(s[i:min(j+1, len(s))])
			i = j + 1
			continue
		}
		if c == '(' || c == '[' {
			// find matching close
			closer := byte(')')
			if c == '[' {
				closer = ']'
			}
			d := 0
			j := i
			for ; j < len(s); j++ {
				if s[j] == c {
					d++
				} else if s[j] == closer {
					d--
					if d == 0 {
						break
					}
				}
			}
			inner := s[i+1 : j]
			// split inner at top-level commas and rewrite each part
			parts := splitTop(inner, ',')
			for k := range parts {
				parts[k] = rewriteImplies(parts[k])
			}
			b.WriteByte(c)
			b.WriteString(strings.Join(parts, ","))
			b.WriteByte(closer)
			i = j + 1
			continue
		}
		b.WriteByte(c)
		i++
	}
	return b.String()
}

func splitTop(s string, sep byte) []string {
	var out []string
	d := 0
	inStr := false
	start := 0
	for i := 0; i < len(s); i++ {
		c := s[i]
		if inStr {
			if c == '\\' {
				i++
			} else if c == '"' {
				inStr = false
			}
			continue
		}
		switch c {
		case '"':
			inStr = true
		case '(', '[':
			d++
		case ')', ']':
			d--
		default:
			if c == sep && d == 0 {
				out = append(out, s[start:i])
				start = i + 1
			}
		}
	}
	out = append(out, s[start:])
	return out
}

func parseExpr(text, where string) (ast.Expr, error) {
	t := rewriteImplies(text)
	e, err := parser.ParseExpr(t)
	if err != nil {
		return nil, fmt.Errorf("%s: cannot parse %q: %v", where, text, err)
	}
	return e, nil
}

func mkClause(text, where string) (*Clause, error) {
	c := &Clause{Where: where}
	if m := propRe.FindStringSubmatch(text); m != nil {
		for _, p := range strings.Split(m[1], ",") {
			c.Props = append(c.Props, strings.TrimSpace(p))
		}
		text = text[len(m[0]):]
	}
	if m := revealRe.FindStringSubmatch(text); m != nil {
		for _, p := range strings.Split(m[1], ",") {
			c.Reveal = append(c.Reveal, strings.TrimSpace(p))
		}
		text = text[len(m[0]):]
	}
	c.Text = strings.TrimSpace(text)
	e, err := parseExpr(c.Text, where)
	if err != nil {
		return nil, err
	}
	c.Expr = e
	return c, nil
}

// loadFile reads one contract/spec file.  pkgPath is the import path of the
// package the file lives in ("" for shared spec files).
func (lib *SpecLib) loadFile(path, pkgPath string) error {
	f, err := os.Open(path)
	if err != nil {
		return err
	}
	defer f.Close()
	lib.Files = append(lib.Files, path)
	sc := bufio.NewScanner(f)
	sc.Buffer(make([]byte, 1<<20), 1<<20)
	type item struct {
		kw, rest, where string
	}
	var items []item
	ln := 0
	inContracts := strings.HasSuffix(path, ".go")
	for sc.Scan() {
		ln++
		line := sc.Text()
		if inContracts {
			t := strings.TrimSpace(line)
			if !strings.HasPrefix(t, "//@") {
				continue
			}
			line = strings.TrimPrefix(t, "//@")
		} else {
			if i := strings.Index(line, "//#"); i >= 0 {
				line = line[:i]
			}
		}
		if i := strings.Index(line, " //"); i >= 0 && !strings.Contains(line[i:], "\"") {
			line = line[:i]
		}
		t := strings.TrimSpace(line)
		if t == "" {
			continue
		}
		fields := strings.SplitN(t, " ", 2)
		kw := fields[0]
		// ensures[C01] form
		base := kw
		if i := strings.Index(kw, "["); i >= 0 {
			base = kw[:i]
		}
		where := fmt.Sprintf("%s:%d", filepath.Base(filepath.Dir(path))+"/"+filepath.Base(path), ln)
		if keywords[base] {
			rest := ""
			if len(fields) > 1 {
				rest = fields[1]
			}
			if base != kw {
				rest = kw[len(base):] + " " + rest
			}
			items = append(items, item{base, strings.TrimSpace(rest), where})
		} else {
			if len(items) == 0 {
				return fmt.Errorf("%s: continuation without clause", where)
			}
			items[len(items)-1].rest += " " + t
		}
	}
	var cur *Contract
	var curLoop *LoopSpec
	var curType *TypeSpec
	for _, it := range items {
		switch it.kw {
		case "func":
			key := canonKey(it.rest, pkgPath)
			cur = &Contract{Key: key, Pkg: pkgPath, Loops: map[int]*LoopSpec{}, Where: it.where, Props: map[string]bool{}}
			if old, dup := lib.Contracts[key]; dup {
				return fmt.Errorf("%s: duplicate contract for %s (also %s)", it.where, key, old.Where)
			}
			lib.Contracts[key] = cur
			curLoop = nil
			curType = nil
		case "type":
			key := pkgPath + "." + it.rest
			if pkgPath == "" {
				key = it.rest
			}
			curType = lib.Types[key]
			if curType == nil {
				curType = &TypeSpec{Key: key, Models: map[string]*Macro{}, Guarded: map[string]string{}}
				lib.Types[key] = curType
			}
			cur = nil
			curLoop = nil
		case "owned":
			if curType == nil {
				return fmt.Errorf("%s: owned outside type", it.where)
			}
			curType.Owned = append(curType.Owned, strings.Fields(it.rest)...)
		case "guarded_by":
			// guarded_by mu: f1, f2
			parts := strings.SplitN(it.rest, ":", 2)
			if curType == nil || len(parts) != 2 {
				return fmt.Errorf("%s: bad guarded_by", it.where)
			}
			for _, f := range strings.Split(parts[1], ",") {
				curType.Guarded[strings.TrimSpace(f)] = strings.TrimSpace(parts[0])
			}
		case "model":
			// model name(self) = expr
			m, err := parseMacro(it.rest, it.where)
			if err != nil {
				return err
			}
			if curType == nil {
				return fmt.Errorf("%s: model outside type", it.where)
			}
			curType.Models[m.Name] = m
		case "split":
			re := regexp.MustCompile(`^(.+)\s+in\s+(\d+)\.\.(\d+)$`)
			m := re.FindStringSubmatch(it.rest)
			if m == nil || cur == nil {
				return fmt.Errorf("%s: bad split (want: split EXPR in LO..HI)", it.where)
			}
			c, err := mkClause(m[1], it.where)
			if err != nil {
				return err
			}
			if curLoop == nil {
				cur.FnSplit = c
				cur.FnSplitLo, _ = strconv.Atoi(m[2])
				cur.FnSplitHi, _ = strconv.Atoi(m[3])
			} else {
				curLoop.Split = c
				curLoop.SplitLo, _ = strconv.Atoi(m[2])
				curLoop.SplitHi, _ = strconv.Atoi(m[3])
			}
		case "requires", "ensures", "assert", "use", "exports":
			if cur == nil {
				return fmt.Errorf("%s: %s outside func", it.where, it.kw)
			}
			c, err := mkClause(it.rest, it.where)
			if err != nil {
				return err
			}
			switch it.kw {
			case "requires":
				cur.Requires = append(cur.Requires, c)
			case "ensures":
				cur.Ensures = append(cur.Ensures, c)
				for _, p := range c.Props {
					cur.Props[p] = true
				}
			case "assert":
				cur.Asserts = append(cur.Asserts, c)
			case "split":
				cur.Splits = append(cur.Splits, c)
			case "use":
				cur.Uses = append(cur.Uses, c)
			case "exports":
				cur.Exports = append(cur.Exports, c)
			}
		case "modifies":
			if cur == nil {
				return fmt.Errorf("%s: modifies outside func", it.where)
			}
			cur.HasModifies = true
			for _, part := range splitTop(it.rest, ',') {
				part = strings.TrimSpace(part)
				if part == "" || part == "nothing" {
					continue
				}
				c, err := mkClause(part, it.where)
				if err != nil {
					return err
				}
				cur.Modifies = append(cur.Modifies, c)
			}
		case "invariant":
			c, err := mkClause(it.rest, it.where)
			if err != nil {
				return err
			}
			if curType != nil {
				curType.Invs = append(curType.Invs, c)
			} else if curLoop != nil {
				curLoop.Invs = append(curLoop.Invs, c)
			} else {
				return fmt.Errorf("%s: invariant outside loop/type", it.where)
			}
		case "decreases":
			if curLoop == nil {
				return fmt.Errorf("%s: decreases outside loop", it.where)
			}
			c, err := mkClause(it.rest, it.where)
			if err != nil {
				return err
			}
			curLoop.Decreases = c
		case "loop":
			if cur == nil {
				return fmt.Errorf("%s: loop outside func", it.where)
			}
			n, err := strconv.Atoi(strings.TrimSpace(it.rest))
			if err != nil {
				return fmt.Errorf("%s: bad loop ordinal %q", it.where, it.rest)
			}
			curLoop = &LoopSpec{Ordinal: n}
			cur.Loops[n] = curLoop
		case "noterm":
			if cur == nil {
				return fmt.Errorf("%s: noterm outside func", it.where)
			}
			cur.NoTerm = it.rest
		case "arith":
			if cur == nil || strings.TrimSpace(it.rest) != "wrap" {
				return fmt.Errorf("%s: bad arith clause (want: arith wrap)", it.where)
			}
			cur.Wrap = true
		case "mode":
			cur.Mode = it.rest
		case "opaque":
			for _, p := range strings.Split(it.rest, ",") {
				if p = strings.TrimSpace(p); p != "" {
					cur.Opaque = append(cur.Opaque, p)
				}
			}
		case "spawns":
			if cur == nil {
				return fmt.Errorf("%s: spawns outside func", it.where)
			}
			sp := &SpawnSpec{Where: it.where}
			rest := it.rest
			if m := propRe.FindStringSubmatch(rest); m != nil {
				for _, p := range strings.Split(m[1], ",") {
					sp.Props = append(sp.Props, strings.TrimSpace(p))
				}
				rest = rest[len(m[0]):]
			}
			for _, n := range strings.Split(rest, ",") {
				if n = strings.TrimSpace(n); n != "" {
					sp.Names = append(sp.Names, n)
				}
			}
			cur.Spawns = append(cur.Spawns, sp)
		case "bitsdef":
			cur.BitsDef = true
		case "sequential":
			cur.Sequential = true
		case "inline":
			cur.Inline = true
		case "assume-contract":
			cur.Trusted = true
		case "pure":
			cur.Pure = true
		case "nosafety":
			cur.NoSafety = true
		case "fresh-result":
			cur.FreshResult = true
		case "ghostparam":
			cur.Ghosts = append(cur.Ghosts, it.rest)
		case "let":
			parts := strings.SplitN(it.rest, "=", 2)
			if len(parts) != 2 {
				return fmt.Errorf("%s: bad let", it.where)
			}
			e, err := parseExpr(strings.TrimSpace(parts[1]), it.where)
			if err != nil {
				return err
			}
			l := &Let{Name: strings.TrimSpace(parts[0]), Expr: e, Text: it.rest, Where: it.where}
			if curLoop != nil {
				curLoop.Lets = append(curLoop.Lets, l)
			} else if cur != nil {
				cur.Lets = append(cur.Lets, l)
			} else {
				return fmt.Errorf("%s: let outside func", it.where)
			}
		case "define":
			m, err := parseMacro(it.rest, it.where)
			if err != nil {
				return err
			}
			lib.Macros[m.Name] = m
		case "defpred", "recfun":
			re := regexp.MustCompile(`^(\w+)\((.*?)\)\s*=\s*(.+)$`)
			m := re.FindStringSubmatch(it.rest)
			if m == nil {
				return fmt.Errorf("%s: bad defpred", it.where)
			}
			e, err := parseExpr(m[3], it.where)
			if err != nil {
				return err
			}
			pr := &Pred{Name: m[1], Body: e, Text: m[3], Where: it.where, Ret: "Bool"}
			if it.kw == "recfun" {
				pr.Ret = "Int"
			}
			for _, p := range splitTop(m[2], ',') {
				kv := strings.SplitN(p, ":", 2)
				if len(kv) != 2 {
					kv = []string{p, "Int"}
				}
				pr.Params = append(pr.Params, strings.TrimSpace(kv[0]))
				pr.Sorts = append(pr.Sorts, strings.TrimSpace(kv[1]))
			}
			lib.Preds[pr.Name] = pr
		case "declare":
			// declare name(Sort, Sort) Sort
			re := regexp.MustCompile(`^(\w+)\((.*)\)\s*(.+)$`)
			m := re.FindStringSubmatch(it.rest)
			if m == nil {
				return fmt.Errorf("%s: bad declare", it.where)
			}
			d := &UFDecl{Name: m[1], Ret: strings.TrimSpace(m[3]), Where: it.where}
			for _, a := range splitTop(m[2], ',') {
				a = strings.TrimSpace(a)
				if a != "" {
					d.Args = append(d.Args, a)
				}
			}
			lib.UFs[d.Name] = d
		case "lemma", "auxlemma":
			// lemma name(p, q, s) by s [trigger; trigger]: expr
			// (auxlemma: available only for proving later lemmas, never instantiated in function units)
			re := regexp.MustCompile(`^(\w+)\(([\w, :()]*?)\)\s*(?:by\s+(\w+)\s*)?\[(.*?)\]\s*:\s*(.+)$`)
			m := re.FindStringSubmatch(it.rest)
			if m == nil {
				return fmt.Errorf("%s: bad lemma (want: name(params) by v [triggers]: expr)", it.where)
			}
			e, err := parseExpr(m[5], it.where)
			if err != nil {
				return err
			}
			ax := &Axiom{Name: m[1], Text: m[5], Expr: e, Where: it.where, Lemma: true, Aux: it.kw == "auxlemma", By: m[3], Index: len(lib.Axioms)}
			for _, t := range splitTop(m[2], ',') {
				if t = strings.TrimSpace(t); t != "" {
					srt := "Int"
					if i := strings.Index(t, ":"); i >= 0 {
						srt = strings.TrimSpace(t[i+1:])
						t = strings.TrimSpace(t[:i])
					}
					ax.Params = append(ax.Params, t)
					ax.Sorts = append(ax.Sorts, srt)
				}
			}
			for _, t := range splitTop(m[4], ';') {
				if t = strings.TrimSpace(t); t != "" {
					pe, err := parseExpr(t, it.where)
					if err != nil {
						return err
					}
					ax.Pats = append(ax.Pats, pe)
					for _, fm := range regexp.MustCompile(`(\w+)\(`).FindAllStringSubmatch(t, -1) {
						ax.Trigger = append(ax.Trigger, fm[1])
					}
				}
			}
			if len(ax.Pats) == 0 {
				return fmt.Errorf("%s: lemma %s needs a trigger", it.where, ax.Name)
			}
			lib.Axioms = append(lib.Axioms, ax)
		case "axiom":
			// axiom name [f,g]: expr
			re := regexp.MustCompile(`^(\w+)\s*\[([\w, ]*)\]\s*:\s*(.+)$`)
			m := re.FindStringSubmatch(it.rest)
			if m == nil {
				return fmt.Errorf("%s: bad axiom (want: name [triggers]: expr)", it.where)
			}
			e, err := parseExpr(m[3], it.where)
			if err != nil {
				return err
			}
			ax := &Axiom{Name: m[1], Text: m[3], Expr: e, Where: it.where}
			for _, t := range strings.Split(m[2], ",") {
				t = strings.TrimSpace(t)
				if t != "" {
					ax.Trigger = append(ax.Trigger, t)
				}
			}
			lib.Axioms = append(lib.Axioms, ax)
		case "rawaxiom":
			re := regexp.MustCompile(`^(\w+)\s*\[([\w, ]*)\]\s*:\s*(.+)$`)
			m := re.FindStringSubmatch(it.rest)
			if m == nil {
				return fmt.Errorf("%s: bad rawaxiom", it.where)
			}
			ax := &Axiom{Name: m[1], Text: m[3], Raw: m[3], Where: it.where}
			for _, t := range strings.Split(m[2], ",") {
				t = strings.TrimSpace(t)
				if t != "" {
					ax.Trigger = append(ax.Trigger, t)
				}
			}
			lib.Axioms = append(lib.Axioms, ax)
		case "atcall":
			if cur == nil {
				return fmt.Errorf("%s: atcall outside func", it.where)
			}
			rest := it.rest
			var props string
			if m := propRe.FindStringSubmatch(rest); m != nil {
				props = m[0]
				rest = rest[len(m[0]):]
			}
			re := regexp.MustCompile(`^(\S+)\s+/(.*?)/\s*:\s*(.+)$`)
			m := re.FindStringSubmatch(rest)
			if m == nil {
				return fmt.Errorf("%s: bad atcall (want: atcall[Cxx] callee /regex/: cond)", it.where)
			}
			c, err := mkClause(props+m[3], it.where)
			if err != nil {
				return err
			}
			rx, err := regexp.Compile(m[2])
			if err != nil {
				return fmt.Errorf("%s: %v", it.where, err)
			}
			cur.AtCalls = append(cur.AtCalls, &AtCall{Callee: m[1], Re: rx, Clause: c})
		case "stamp":
			parts := strings.SplitN(it.rest, ":", 2)
			if cur == nil || len(parts) != 2 {
				return fmt.Errorf("%s: bad stamp (want: stamp chan: expr)", it.where)
			}
			ce, err := parseExpr(strings.TrimSpace(parts[0]), it.where)
			if err != nil {
				return err
			}
			ee, err := parseExpr(strings.TrimSpace(parts[1]), it.where)
			if err != nil {
				return err
			}
			cur.Stamps = append(cur.Stamps, &Stamp{Chan: ce, Expr: ee, Text: it.rest, Where: it.where})
		case "global":
			c, err := mkClause(it.rest, it.where)
			if err != nil {
				return err
			}
			lib.Globals = append(lib.Globals, &GlobalInv{Pkg: pkgPath, Clause: c})
		}
	}
	return nil
}

func parseMacro(text, where string) (*Macro, error) {
	re := regexp.MustCompile(`^(\w+)\(([\w, ]*)\)\s*=\s*(.+)$`)
	m := re.FindStringSubmatch(text)
	if m == nil {
		// constant: name = expr
		re0 := regexp.MustCompile(`^(\w+)\s*=\s*(.+)$`)
		if m0 := re0.FindStringSubmatch(text); m0 != nil {
			m = []string{m0[0], m0[1], "", m0[2]}
		}
	}
	if m == nil {
		return nil, fmt.Errorf("%s: bad define (want: name(params) = expr)", where)
	}
	e, err := parseExpr(m[3], where)
	if err != nil {
		return nil, err
	}
	mac := &Macro{Name: m[1], Body: e, Text: m[3], Where: where}
	for _, p := range strings.Split(m[2], ",") {
		p = strings.TrimSpace(p)
		if p != "" {
			mac.Params = append(mac.Params, p)
		}
	}
	return mac, nil
}

// canonKey turns "CheckCRC", "(*Handler).GetMessage", "Handler.String" or a
// fully qualified "errors.New" / "(time.Time).Add" into the key format of
// ssa.Function.String().
func canonKey(name, pkgPath string) string {
	name = strings.TrimSpace(name)
	if pkgPath == "" {
		return name
	}
	if strings.HasPrefix(name, "(*") {
		// (*T).M
		i := strings.Index(name, ")")
		return "(*" + pkgPath + "." + name[2:i] + ")" + name[i+1:]
	}
	if strings.HasPrefix(name, "(") {
		i := strings.Index(name, ")")
		return "(" + pkgPath + "." + name[1:i] + ")" + name[i+1:]
	}
	return pkgPath + "." + name
}

func (lib *SpecLib) sortedContractKeys() []string {
	var ks []string
	for k := range lib.Contracts {
		ks = append(ks, k)
	}
	sort.Strings(ks)
	return ks
}

// splitConj splits a clause at top-level conjunctions (also inside the
// consequent of implies) so that every conjunct becomes its own obligation.
func splitConj(e ast.Expr) []ast.Expr {
	switch n := e.(type) {
	case *ast.ParenExpr:
		return splitConj(n.X)
	case *ast.BinaryExpr:
		if n.Op.String() == "&&" {
			return append(splitConj(n.X), splitConj(n.Y)...)
		}
	case *ast.CallExpr:
		if id, ok := n.Fun.(*ast.Ident); ok && id.Name == "implies" && len(n.Args) == 2 {
			var out []ast.Expr
			for _, c := range splitConj(n.Args[1]) {
				out = append(out, &ast.CallExpr{Fun: n.Fun, Args: []ast.Expr{n.Args[0], c}})
			}
			return out
		}
	}
	return []ast.Expr{e}
}
