package main

import (
	"strings"
	"fmt"
	"go/token"
	"go/types"
	"math/big"

	"golang.org/x/tools/go/ssa"
)

func (fr *Frame) setVal(v ssa.Value, term string) {
	u := fr.u
	s := u.so.sortOf(v.Type())
	t := u.define(v.Name()+"_"+fr.fn.Name(), s, term)
	fr.vals[v] = Val{T: t, Ty: v.Type(), S: s}
}

// safetyOblig emits a run-time-panic obligation and then narrows the
// reachability of the current block: Go panics when cond is false, so the
// code that follows is reached only when cond holds.
func (fr *Frame) safetyOblig(kind, desc, reach, cond string) {
	u := fr.u
	if cond == "true" {
		return
	}
	if u.safety {
		u.oblig(kind, desc, implies(reach, cond), nil)
	}
	cur := fr.reach[fr.curBlock]
	fr.reach[fr.curBlock] = u.define("reach_ok", "Bool", and(cur, cond))
}

func (fr *Frame) exec(ins ssa.Instruction, b *ssa.BasicBlock, h Heap) {
	u := fr.u
	so := u.so
	reach := fr.reach[b.Index]
	if p := ins.Pos(); p.IsValid() {
		u.curPos = p
	}
	switch x := ins.(type) {
	case *ssa.DebugRef:
		return
	case *ssa.Alloc:
		t := x.Type().(*types.Pointer).Elem()
		r := fr.newRef(h, "new_"+x.Comment)
		c, s := u.memComp(t)
		cur := u.comp(h, c, s)
		if _, isArr := t.Underlying().(*types.Array); isArr {
			at := t.Underlying().(*types.Array)
			u.assume(eq(sel(cur, r), fmt.Sprintf("((as const %s) %s)", arrSort(so.idxSort(), so.sortOf(at.Elem())), so.zero(at.Elem()))))
		} else {
			u.assume(eq(sel(cur, r), so.zero(t)))
		}
		fr.vals[x] = Val{T: r, Ty: x.Type(), S: "Int"}
	case *ssa.FieldAddr:
		base := fr.lvOf(x.X)
		st := x.X.Type().Underlying().(*types.Pointer).Elem()
		if base.kind == lvPtr && !base.fresh {
			fr.safetyOblig("nil-deref", fmt.Sprintf("%s is not nil at field access .%s", x.X.Name(), st.Underlying().(*types.Struct).Field(x.Field).Name()), reach, not(eq(base.ref, "0")))
		}
		ft := st.Underlying().(*types.Struct).Field(x.Field).Type()
		fr.lvs[x] = &LV{kind: lvField, base: base, field: x.Field, ty: ft}
	case *ssa.Field:
		v := fr.valOf(x.X)
		fr.setVal(x, so.getField(v.S, v.T, x.Field))
	case *ssa.IndexAddr:
		idx := fr.valOf(x.Index)
		idxT := fr.toIdx(idx)
		switch xt := x.X.Type().Underlying().(type) {
		case *types.Slice:
			s := fr.valOf(x.X)
			fr.safetyOblig("index", fmt.Sprintf("index %s within bounds of %s", x.Index.Name(), x.X.Name()), reach, fr.inBounds(idxT, app("s_len", s.T), idx.Ty))
			fr.lvs[x] = &LV{kind: lvElem, arr: app("s_arr", s.T), idx: fr.idxAdd(app("s_off", s.T), idxT), ty: xt.Elem()}
		case *types.Pointer:
			at := xt.Elem().Underlying().(*types.Array)
			base := fr.lvOf(x.X)
			if base.kind != lvPtr {
				u.unsupportedAt(reach, "index of interior array pointer")
				base = &LV{kind: lvPtr, ref: "0", ty: xt.Elem()}
			}
			fr.safetyOblig("index", fmt.Sprintf("index %s within array bounds", x.Index.Name()), reach, fr.inBounds(idxT, so.idxLit(at.Len()), idx.Ty))
			fr.lvs[x] = &LV{kind: lvElem, arr: base.ref, idx: idxT, ty: at.Elem()}
		default:
			u.unsupportedAt(reach, "IndexAddr on "+x.X.Type().String())
		}
	case *ssa.Index:
		v := fr.valOf(x.X)
		idx := fr.valOf(x.Index)
		switch xt := x.X.Type().Underlying().(type) {
		case *types.Array:
			idxT := fr.toIdx(idx)
			fr.safetyOblig("index", "array index in bounds", reach, fr.inBounds(idxT, so.idxLit(xt.Len()), idx.Ty))
			fr.setVal(x, sel(v.T, idxT))
		default:
			u.unsupportedAt(reach, "Index on "+x.X.Type().String())
			fr.havocVal(x, h)
		}
	case *ssa.UnOp:
		fr.execUnOp(x, reach, h)
	case *ssa.Store:
		lv := fr.lvOf(x.Addr)
		if lv.kind == lvPtr && !lv.fresh {
			fr.safetyOblig("nil-deref", x.Addr.Name()+" is not nil at store", reach, not(eq(lv.ref, "0")))
		}
		fr.store(lv, fr.valOf(x.Val).T, h)
	case *ssa.BinOp:
		fr.execBinOp(x, reach, h)
	case *ssa.Convert:
		fr.execConvert(x, reach, h)
	case *ssa.ChangeType:
		v := fr.valOf(x.X)
		fr.vals[x] = Val{T: v.T, Ty: x.Type(), S: so.sortOf(x.Type())}
	case *ssa.ChangeInterface:
		v := fr.valOf(x.X)
		fr.vals[x] = Val{T: v.T, Ty: x.Type(), S: "Iface"}
	case *ssa.MakeInterface:
		v := fr.valOf(x.X)
		fr.setVal(x, fr.box(v, reach))
	case *ssa.TypeAssert:
		v := fr.valOf(x.X)
		if _, isIface := x.AssertedType.Underlying().(*types.Interface); isIface {
			// interface-to-interface: succeeds iff non-nil and dynamic type implements; approximate
			ok := u.fresh("assert_ok", "Bool")
			u.assume(implies(ok, not(eq(app("i_tag", v.T), "0"))))
			if x.CommaOk {
				fr.tuples[x] = []Val{{T: ite(ok, v.T, "(mk_Iface 0 0)"), Ty: x.AssertedType, S: "Iface"}, {T: ok, Ty: types.Typ[types.Bool], S: "Bool"}}
			} else {
				fr.safetyOblig("type-assert", "interface assertion succeeds", reach, ok)
				fr.vals[x] = Val{T: v.T, Ty: x.AssertedType, S: "Iface"}
			}
			return
		}
		tag := so.typeTag(x.AssertedType)
		ok := eq(app("i_tag", v.T), tag)
		un := fr.unbox(v.T, x.AssertedType, reach)
		s := so.sortOf(x.AssertedType)
		if x.CommaOk {
			okn := u.define("assert_ok", "Bool", ok)
			val := u.define("assert_v", s, ite(okn, un, so.zero(x.AssertedType)))
			fr.tuples[x] = []Val{{T: val, Ty: x.AssertedType, S: s}, {T: okn, Ty: types.Typ[types.Bool], S: "Bool"}}
		} else {
			fr.safetyOblig("type-assert", "type assertion to "+x.AssertedType.String()+" succeeds", reach, ok)
			fr.setVal(x, un)
		}
	case *ssa.Extract:
		tv, ok := fr.tuples[x.Tuple]
		if !ok {
			panic("extract: no tuple for " + x.Tuple.Name() + " in " + fr.fn.String())
		}
		fr.vals[x] = tv[x.Index]
	case *ssa.Slice:
		fr.execSlice(x, reach, h)
	case *ssa.MakeSlice:
		et := x.Type().Underlying().(*types.Slice).Elem()
		ln := fr.toIdx(fr.valOf(x.Len))
		cp := fr.toIdx(fr.valOf(x.Cap))
		fr.safetyOblig("makeslice", "make: 0 <= len <= cap", reach, and(fr.idxLe(so.idxLit(0), ln), fr.idxLe(ln, cp)))
		r := fr.newRef(h, "mkslice")
		c, s := u.elemComp(et)
		cur := u.comp(h, c, s)
		u.assume(eq(sel(cur, r), fmt.Sprintf("((as const %s) %s)", arrSort(so.idxSort(), so.sortOf(et)), so.zero(et))))
		fr.setVal(x, fmt.Sprintf("(mk_%s %s %s %s %s)", so.sliceSort(), r, so.idxLit(0), ln, cp))
	case *ssa.MakeMap:
		mt := x.Type().Underlying().(*types.Map)
		r := fr.newRef(h, "mkmap")
		d, ds, _, _, n, ns := u.mapComps(mt)
		u.assume(eq(sel(u.comp(h, d, ds), r), fmt.Sprintf("((as const %s) false)", arrSort(so.sortOf(mt.Key()), "Bool"))))
		u.assume(eq(sel(u.comp(h, n, ns), r), "0"))
		fr.vals[x] = Val{T: r, Ty: x.Type(), S: "Int"}
	case *ssa.MakeChan:
		r := fr.newRef(h, "mkchan")
		u.assume(eq(sel(u.comp(h, "ChRecv", "(Array Int Int)"), r), "0"))
		u.assume(eq(sel(u.comp(h, "ChSentN", "(Array Int Int)"), r), "0"))
		u.assume(eq(sel(u.comp(h, "ChClosed", "(Array Int Int)"), r), "0"))
		fr.vals[x] = Val{T: r, Ty: x.Type(), S: "Int"}
	case *ssa.MakeClosure:
		fr.vals[x] = Val{T: "0", Ty: x.Type(), S: "Int"}
	case *ssa.Lookup:
		fr.execLookup(x, reach, h)
	case *ssa.MapUpdate:
		mt := x.Map.Type().Underlying().(*types.Map)
		m := fr.valOf(x.Map).T
		k := fr.valOf(x.Key).T
		v := fr.valOf(x.Value).T
		fr.safetyOblig("nil-map-write", "map is not nil at update", reach, not(eq(m, "0")))
		d, ds, vv, vs, n, ns := u.mapComps(mt)
		dc := u.comp(h, d, ds)
		vc := u.comp(h, vv, vs)
		nc := u.comp(h, n, ns)
		had := sel(sel(dc, m), k)
		h[n] = u.define(n, ns, sto(nc, m, iadd(sel(nc, m), ite(had, "0", "1"))))
		h[d] = u.define(d, ds, sto(dc, m, sto(sel(dc, m), k, "true")))
		h[vv] = u.define(vv, vs, sto(vc, m, sto(sel(vc, m), k, v)))
	case *ssa.Call:
		res := fr.call(x, &x.Call, reach, h)
		fr.bindResults(x, res)
	case *ssa.Go:
		fr.execGo(x, reach, h)
	case *ssa.Defer:
		if b.Index != 0 && !b.Dominates(fr.fn.Blocks[len(fr.fn.Blocks)-1]) {
			// conditional defers are outside the subset
			u.unsupportedAt(reach, "conditional defer")
		}
		fr.defers = append(fr.defers, x)
	case *ssa.RunDefers:
		for i := len(fr.defers) - 1; i >= 0; i-- {
			d := fr.defers[i]
			fr.call(d, &d.Call, reach, h)
		}
	case *ssa.Send:
		fr.execSend(x, reach, h)
	case *ssa.Jump:
		fr.edgeCond[[2]int{b.Index, b.Succs[0].Index}] = reach
	case *ssa.If:
		c := fr.valOf(x.Cond).T
		t := u.define(fmt.Sprintf("edge_%d_%d", b.Index, b.Succs[0].Index), "Bool", and(reach, c))
		f := u.define(fmt.Sprintf("edge_%d_%d", b.Index, b.Succs[1].Index), "Bool", and(reach, not(c)))
		if b.Succs[0] == b.Succs[1] {
			fr.edgeCond[[2]int{b.Index, b.Succs[0].Index}] = reach
		} else {
			fr.edgeCond[[2]int{b.Index, b.Succs[0].Index}] = t
			fr.edgeCond[[2]int{b.Index, b.Succs[1].Index}] = f
		}
	case *ssa.Return:
		var vs []Val
		for _, r := range x.Results {
			vs = append(vs, fr.valOf(r))
		}
		fr.rets = append(fr.rets, retInfo{reach: reach, vals: vs, heap: h.clone()})
	case *ssa.Panic:
		fr.safetyOblig("no-panic", "explicit panic is unreachable", reach, "false")
	case *ssa.Range:
		if mt, isM := x.X.Type().Underlying().(*types.Map); isM && !u.so.bv {
			fr.execRange(x, mt, reach, h)
		} else {
			// iteration state is opaque
			fr.vals[x] = Val{T: "0", Ty: x.Type(), S: "Int"}
		}
	case *ssa.Next:
		fr.execNext(x, reach, h)
	case *ssa.Select:
		u.unsupportedAt(reach, "select statement")
		fr.havocTuple(x, x.Type().(*types.Tuple), h)
	default:
		u.unsupportedAt(reach, fmt.Sprintf("instruction %T", ins))
		if v, ok := ins.(ssa.Value); ok {
			fr.havocVal(v, h)
		}
	}
}

func (fr *Frame) bindResults(x ssa.Value, res []Val) {
	if tup, ok := x.Type().(*types.Tuple); ok {
		if tup.Len() == 0 {
			return
		}
		fr.tuples[x] = res
		return
	}
	if len(res) == 1 {
		fr.vals[x] = res[0]
	}
}

func (fr *Frame) havocVal(v ssa.Value, h Heap) {
	u := fr.u
	if tup, ok := v.Type().(*types.Tuple); ok {
		fr.havocTuple(v, tup, h)
		return
	}
	s := u.so.sortOf(v.Type())
	n := u.fresh("havoc_"+v.Name(), s)
	u.assume(u.typeInv(n, v.Type(), fr.ctr(h)))
	fr.vals[v] = Val{T: n, Ty: v.Type(), S: s}
}

func (fr *Frame) havocTuple(v ssa.Value, tup *types.Tuple, h Heap) {
	var vs []Val
	for i := 0; i < tup.Len(); i++ {
		vs = append(vs, fr.havocOfType(tup.At(i).Type(), "havoc", h))
	}
	fr.tuples[v] = vs
}

func (fr *Frame) havocOfType(t types.Type, prefix string, h Heap) Val {
	u := fr.u
	s := u.so.sortOf(t)
	n := u.fresh(prefix, s)
	u.assume(u.typeInv(n, t, fr.ctr(h)))
	return Val{T: n, Ty: t, S: s}
}

// index helpers (mode dependent)
func (fr *Frame) toIdx(v Val) string {
	if fr.u.so.bv {
		w := bvWidth(v.S)
		if w == 64 {
			return v.T
		}
		if isSigned(v.Ty) {
			return fmt.Sprintf("((_ sign_extend %d) %s)", 64-w, v.T)
		}
		return fmt.Sprintf("((_ zero_extend %d) %s)", 64-w, v.T)
	}
	return v.T
}

func (fr *Frame) idxAdd(a, b string) string {
	if fr.u.so.bv {
		return app("bvadd", a, b)
	}
	return iadd(a, b)
}

func (fr *Frame) idxSub(a, b string) string {
	if fr.u.so.bv {
		return app("bvsub", a, b)
	}
	return isub(a, b)
}

func (fr *Frame) idxLe(a, b string) string {
	if fr.u.so.bv {
		return app("bvsle", a, b)
	}
	return icmp("<=", a, b)
}

func (fr *Frame) idxLt(a, b string) string {
	if fr.u.so.bv {
		return app("bvslt", a, b)
	}
	return icmp("<", a, b)
}

func (fr *Frame) inBounds(idx, ln string, idxTy types.Type) string {
	if fr.u.so.bv {
		// lengths are < 2^60, so an unsigned comparison covers negative indices too
		return app("bvult", idx, ln)
	}
	return and(icmp("<=", "0", idx), icmp("<", idx, ln))
}

func (fr *Frame) box(v Val, reach string) string {
	u := fr.u
	so := u.so
	t := v.Ty
	if _, isIface := t.Underlying().(*types.Interface); isIface {
		return v.T
	}
	tag := so.typeTag(t)
	switch ut := t.Underlying().(type) {
	case *types.Pointer, *types.Map, *types.Chan, *types.Signature:
		return app("mk_Iface", tag, v.T)
	case *types.Basic:
		if _, _, ok := intInfo(ut); ok && !so.bv {
			return app("mk_Iface", tag, v.T)
		}
		switch ut.Kind() {
		case types.String:
			u.assume(eq(app("i2str", app("str2i", v.T)), v.T)) // boxing a string is injective
			return app("mk_Iface", tag, app("str2i", v.T))
		case types.Bool:
			return app("mk_Iface", tag, ite(v.T, "1", "0"))
		case types.UntypedNil:
			return "(mk_Iface 0 0)"
		}
	}
	// other value types (structs, floats, slices): opaque injective boxing
	fn := "box_" + mangle(typeKey(t))
	u.declFun(fn, "("+v.S+") Int")
	u.declFun("un"+fn, "(Int) "+v.S)
	u.assume(eq(app("un"+fn, app(fn, v.T)), v.T))
	return app("mk_Iface", tag, app(fn, v.T))
}

func (fr *Frame) unbox(iface string, t types.Type, reach string) string {
	u := fr.u
	so := u.so
	val := app("i_val", iface)
	switch ut := t.Underlying().(type) {
	case *types.Pointer, *types.Map, *types.Chan, *types.Signature:
		return val
	case *types.Basic:
		if _, _, ok := intInfo(ut); ok && !so.bv {
			return val
		}
		switch ut.Kind() {
		case types.String:
			return app("i2str", val)
		case types.Bool:
			return eq(val, "1")
		}
	}
	fn := "box_" + mangle(typeKey(t))
	s := so.sortOf(t)
	u.declFun(fn, "("+s+") Int")
	u.declFun("un"+fn, "(Int) "+s)
	return app("un"+fn, val)
}

// ctrAtLoad: the allocation bound of a value loaded from lv.  References held in a
// heap component that has not been written since the function was entered were
// allocated before entry (the initial heap is closed under reachability), so they
// are bounded by the initial allocation counter rather than the current one.
func (fr *Frame) ctrAtLoad(lv *LV, h Heap) string {
	u := fr.u
	base := lv
	for base.kind == lvField {
		base = base.base
	}
	var c, s string
	switch base.kind {
	case lvPtr:
		if u.interior(base.ty) && !u.so.bv {
			return fr.ctr(h)
		}
		c, s = u.memComp(base.ty)
	case lvElem:
		c, s = u.elemComp(base.ty)
	default:
		return fr.ctr(h)
	}
	if strings.HasPrefix(u.comp(h, c, s), "H0_") && u.compInit["ctr"] != "" {
		return u.compInit["ctr"]
	}
	return fr.ctr(h)
}

func (fr *Frame) execUnOp(x *ssa.UnOp, reach string, h Heap) {
	u := fr.u
	so := u.so
	switch x.Op {
	case token.MUL: // load
		lv := fr.lvOf(x.X)
		if lv.kind == lvPtr && !lv.fresh {
			fr.safetyOblig("nil-deref", x.X.Name()+" is not nil at load", reach, not(eq(lv.ref, "0")))
		}
		fr.setVal(x, fr.load(lv, h))
		v := fr.vals[x]
		u.assume(u.typeInv(v.T, x.Type(), fr.ctrAtLoad(lv, h)))
	case token.NOT:
		fr.setVal(x, not(fr.valOf(x.X).T))
	case token.SUB:
		v := fr.valOf(x.X)
		if v.S == "Real" {
			fr.setVal(x, app("-", v.T))
			return
		}
		if so.bv {
			fr.setVal(x, app("bvneg", v.T))
			return
		}
		r := isub("0", v.T)
		lo, hi := intRange(x.Type())
		if !u.nowrap {
			r = u.convertIntWrap(r, x.Type())
		}
		if u.nowrap {
			if _, lit := parseLit(r); !lit {
				u.oblig("no-wrap", "negation does not overflow", implies(reach, and(app("<=", ilitB(lo), r), app("<=", r, ilitB(hi)))), nil)
			}
		}
		fr.setVal(x, r)
	case token.XOR:
		v := fr.valOf(x.X)
		if so.bv {
			fr.setVal(x, app("bvnot", v.T))
			return
		}
		// ^x = -x-1 (signed) or 2^w-1-x (unsigned)
		bits, signed, _ := intInfo(x.Type())
		if signed {
			fr.setVal(x, isub(isub("0", v.T), "1"))
		} else {
			fr.setVal(x, isub(ilitB(new(big.Int).Sub(pow2(bits), big.NewInt(1))), v.T))
		}
	case token.ARROW:
		fr.execRecv(x, reach, h)
	default:
		u.unsupportedAt(reach, "unary "+x.Op.String())
		fr.havocVal(x, h)
	}
}

func (fr *Frame) execBinOp(x *ssa.BinOp, reach string, h Heap) {
	u := fr.u
	so := u.so
	a := fr.valOf(x.X)
	b := fr.valOf(x.Y)
	xt := x.X.Type()
	_, _, isInt := intInfo(xt)
	isCmp := false
	switch x.Op {
	case token.EQL, token.NEQ, token.LSS, token.LEQ, token.GTR, token.GEQ:
		isCmp = true
	}
	switch {
	case isInt && isCmp:
		fr.setVal(x, u.intCmp(x.Op, a.T, b.T, xt))
	case isInt:
		// (y >> s) & 1 in int mode: uninterpreted bit test
		if !so.bv && x.Op == token.AND {
			if shr, cnt, ok := fr.bitTestPattern(x); ok {
				bits, _, _ := intInfo(shr.X.Type())
				c := fr.valOf(cnt)
				// Go panics on a negative shift count; a count >= the operand width yields 0
				if isSigned(cnt.Type()) {
					fr.safetyOblig("shift-count", "shift count is not negative", reach, icmp("<=", "0", c.T))
				}
				t := app("bitof", fr.valOf(shr.X).T, c.T)
				fr.setVal(x, t)
				v := fr.vals[x]
				u.assume(and(app("<=", "0", v.T), app("<=", v.T, "1"), implies(icmp(">=", c.T, ilit(int64(bits))), eq(v.T, "0"))))
				return
			}
		}
		if !so.bv && x.Op == token.OR {
			// a<<k | b with b < 2^k: disjoint bits
			if r, cond, ok := fr.orDisjoint(x, a, b); ok && !u.nowrap {
				// wrap mode: | is + when the operands have disjoint bits, otherwise unconstrained (within the type's range)
				fr.havocVal(x, h)
				any := fr.vals[x].T
				fr.setVal(x, ite(cond, r, any))
				return
			} else if ok {
				if cond != "true" {
					u.oblig("or-disjoint", "operands of | have disjoint bits (needed to read | as +)", implies(reach, cond), nil)
				}
				fr.setVal(x, r)
				return
			}
		}
		res, wrapOK, err := u.intBinop(x.Op, a.T, b.T, x.Type(), x.Y.Type())
		if err != "" {
			if !so.bv && (x.Op == token.SHR || x.Op == token.SHL) {
				// symbolic shift: uninterpreted, constrained to the type's range
				fn := "shr"
				if x.Op == token.SHL {
					fn = "shl"
				}
				u.declFun(fn, "(Int Int) Int")
				fr.setVal(x, app(fn, a.T, b.T))
				u.assume(u.typeInv(fr.vals[x].T, x.Type(), "0"))
				return
			}
			if !u.nowrap {
				// wrap mode (display code): the value of an unmodelled bit operation is left unconstrained
				fr.havocVal(x, h)
				return
			}
			u.unsupportedAt(reach, err+" in "+fr.fn.Name())
			fr.havocVal(x, h)
			return
		}
		if (x.Op == token.QUO || x.Op == token.REM) {
			if _, lit := parseLit(b.T); !lit && !so.bv {
				fr.safetyOblig("div-zero", "divisor is not zero", reach, not(eq(b.T, "0")))
			} else if so.bv {
				fr.safetyOblig("div-zero", "divisor is not zero", reach, not(eq(b.T, so.intLit(x.Y.Type(), big.NewInt(0)))))
			}
		}
		if wrapOK != "" && u.nowrap {
			u.oblig("no-wrap", fmt.Sprintf("%s %s %s stays within %s", x.X.Name(), x.Op, x.Y.Name(), x.Type()), implies(reach, wrapOK), nil)
		}
		if wrapOK != "" && !u.nowrap {
			// exact wrap-around semantics
			res = u.convertIntWrap(res, x.Type())
		}
		fr.setVal(x, res)
	case a.S == "Bool":
		switch x.Op {
		case token.EQL:
			fr.setVal(x, eq(a.T, b.T))
		case token.NEQ:
			fr.setVal(x, not(eq(a.T, b.T)))
		case token.AND, token.LAND:
			fr.setVal(x, and(a.T, b.T))
		case token.OR, token.LOR:
			fr.setVal(x, or(a.T, b.T))
		default:
			u.unsupportedAt(reach, "bool op "+x.Op.String())
			fr.havocVal(x, h)
		}
	case a.S == "Str":
		switch x.Op {
		case token.ADD:
			fr.setVal(x, app("strcat", a.T, b.T))
			v := fr.vals[x]
			u.assume(eq(app("strlen", v.T), iadd(app("strlen", a.T), app("strlen", b.T))))
		case token.EQL:
			fr.setVal(x, eq(a.T, b.T))
		case token.NEQ:
			fr.setVal(x, not(eq(a.T, b.T)))
		default:
			u.unsupportedAt(reach, "string op "+x.Op.String())
			fr.havocVal(x, h)
		}
	case a.S == "Real":
		fr.execFloatOp(x, a, b, reach, h)
	case a.S == "Iface":
		var e string
		// comparison with nil: tag test
		if b.T == "(mk_Iface 0 0)" {
			e = eq(app("i_tag", a.T), "0")
		} else if a.T == "(mk_Iface 0 0)" {
			e = eq(app("i_tag", b.T), "0")
		} else {
			e = eq(a.T, b.T)
		}
		if x.Op == token.NEQ {
			e = not(e)
		}
		fr.setVal(x, e)
	case a.S == so.sliceSort():
		// only comparison with nil is legal
		other := a
		if isNilConst(x.X) {
			other = b
		}
		e := eq(app("s_arr", other.T), "0")
		if x.Op == token.NEQ {
			e = not(e)
		}
		fr.setVal(x, e)
	default:
		// pointers, chans, maps, structs: equality
		e := eq(a.T, b.T)
		switch x.Op {
		case token.EQL:
			fr.setVal(x, e)
		case token.NEQ:
			fr.setVal(x, not(e))
		default:
			u.unsupportedAt(reach, fmt.Sprintf("binop %s on %s", x.Op, xt))
			fr.havocVal(x, h)
		}
	}
}

func isNilConst(v ssa.Value) bool {
	c, ok := v.(*ssa.Const)
	return ok && c.Value == nil
}

// bitTestPattern recognises (y >> s) & 1 and 1 & (y >> s).
func (fr *Frame) bitTestPattern(x *ssa.BinOp) (*ssa.BinOp, ssa.Value, bool) {
	isOne := func(v ssa.Value) bool {
		c, ok := v.(*ssa.Const)
		if !ok || c.Value == nil {
			return false
		}
		val := fr.constVal(c)
		return val.T == "1"
	}
	try := func(p, q ssa.Value) (*ssa.BinOp, ssa.Value, bool) {
		if !isOne(q) {
			return nil, nil, false
		}
		shr, ok := p.(*ssa.BinOp)
		if !ok || shr.Op != token.SHR {
			return nil, nil, false
		}
		if _, lit := parseLit(fr.valOf(shr.Y).T); lit {
			return nil, nil, false // constant shifts are handled exactly
		}
		return shr, shr.Y, true
	}
	if s, c, ok := try(x.X, x.Y); ok {
		return s, c, true
	}
	return try(x.Y, x.X)
}

// orDisjoint: (p << k) | q  ==> p*2^k + q provided 0 <= q < 2^k
func (fr *Frame) orDisjoint(x *ssa.BinOp, a, b Val) (string, string, bool) {
	shiftOf := func(v ssa.Value) (uint, bool) {
		// look through conversions
		for {
			if c, ok := v.(*ssa.Convert); ok {
				v = c.X
				continue
			}
			break
		}
		s, ok := v.(*ssa.BinOp)
		if !ok || s.Op != token.SHL {
			return 0, false
		}
		k, lit := parseLit(fr.valOf(s.Y).T)
		if !lit {
			return 0, false
		}
		return uint(k.Uint64()), true
	}
	if k, ok := shiftOf(x.X); ok {
		return iadd(a.T, b.T), and(icmp("<=", "0", b.T), icmp("<", b.T, ilitB(pow2(k)))), true
	}
	if k, ok := shiftOf(x.Y); ok {
		return iadd(a.T, b.T), and(icmp("<=", "0", a.T), icmp("<", a.T, ilitB(pow2(k)))), true
	}
	return "", "", false
}

func (fr *Frame) execConvert(x *ssa.Convert, reach string, h Heap) {
	u := fr.u
	v := fr.valOf(x.X)
	from, to := x.X.Type(), x.Type()
	_, _, fi := intInfo(from)
	_, _, ti := intInfo(to)
	fb, _ := from.Underlying().(*types.Basic)
	tb, _ := to.Underlying().(*types.Basic)
	switch {
	case fi && ti:
		fr.setVal(x, u.convertInt(v.T, from, to))
	case fi && tb != nil && tb.Info()&types.IsFloat != 0:
		fr.execIntToFloat(x, v, reach)
	case fb != nil && fb.Info()&types.IsFloat != 0 && ti:
		fr.execFloatToInt(x, v, reach, h)
	case fb != nil && tb != nil && fb.Info()&types.IsFloat != 0 && tb.Info()&types.IsFloat != 0:
		fr.vals[x] = Val{T: v.T, Ty: to, S: "Real"}
	default:
		// []byte(s): a fresh slice holding the bytes of the string (strbytes(s), strlen(s))
		if fb != nil && fb.Kind() == types.String && !u.so.bv {
			if st, ok := to.Underlying().(*types.Slice); ok {
				if eb, ok := st.Elem().Underlying().(*types.Basic); ok && eb.Kind() == types.Uint8 {
					u.declFun("strbytes", "(Str) (Array Int Int)")
					r := fr.newRef(h, "strbytes")
					c, cs := u.elemComp(st.Elem())
					cur := u.comp(h, c, cs)
					u.assume(eq(sel(cur, r), app("strbytes", v.T)))
					ln := app("strlen", v.T)
					fr.setVal(x, fmt.Sprintf("(mk_Slice %s 0 %s %s)", r, ln, ln))
					return
				}
			}
		}
		// other conversions: opaque
		u.unsupportedAt(reach, fmt.Sprintf("conversion %s -> %s", from, to))
		fr.havocVal(x, h)
	}
}

func (fr *Frame) execSlice(x *ssa.Slice, reach string, h Heap) {
	u := fr.u
	so := u.so
	var low, high string
	if x.Low != nil {
		low = fr.toIdx(fr.valOf(x.Low))
	} else {
		low = so.idxLit(0)
	}
	if x.Max != nil {
		u.unsupportedAt(reach, "3-index slice")
	}
	switch xt := x.X.Type().Underlying().(type) {
	case *types.Slice:
		s := fr.valOf(x.X)
		ln := app("s_len", s.T)
		if x.High != nil {
			high = fr.toIdx(fr.valOf(x.High))
		} else {
			high = ln
		}
		// Go's rule for slices: 0 <= low <= high <= cap.  Cells between len and cap are
		// whatever the backing array holds (the heap model keeps them).
		fr.safetyOblig("slice-bounds", fmt.Sprintf("0 <= low <= high <= cap for %s[...]", x.X.Name()), reach,
			and(fr.idxLe(so.idxLit(0), low), fr.idxLe(low, high), fr.idxLe(high, app("s_cap", s.T))))
		fr.setVal(x, fmt.Sprintf("(mk_%s %s %s %s %s)", so.sliceSort(), app("s_arr", s.T), fr.idxAdd(app("s_off", s.T), low), fr.idxSub(high, low), fr.idxSub(app("s_cap", s.T), low)))
	case *types.Pointer:
		at := xt.Elem().Underlying().(*types.Array)
		base := fr.lvOf(x.X)
		n := so.idxLit(at.Len())
		if x.High != nil {
			high = fr.toIdx(fr.valOf(x.High))
		} else {
			high = n
		}
		fr.safetyOblig("slice-bounds", "0 <= low <= high <= array length", reach, and(fr.idxLe(so.idxLit(0), low), fr.idxLe(low, high), fr.idxLe(high, n)))
		fr.setVal(x, fmt.Sprintf("(mk_%s %s %s %s %s)", so.sliceSort(), base.ref, low, fr.idxSub(high, low), fr.idxSub(n, low)))
	default:
		u.unsupportedAt(reach, "slice of "+x.X.Type().String())
		fr.havocVal(x, h)
	}
}

func (u *Unit) mapComps(mt *types.Map) (d, ds, v, vs, n, ns string) {
	k := mangle(typeKey(mt.Key())) + "_" + mangle(typeKey(mt.Elem()))
	ks := u.so.sortOf(mt.Key())
	es := u.so.sortOf(mt.Elem())
	return "MapD_" + k, arrSort("Int", arrSort(ks, "Bool")), "MapV_" + k, arrSort("Int", arrSort(ks, es)), "MapN_" + k, "(Array Int Int)"
}

func (fr *Frame) execLookup(x *ssa.Lookup, reach string, h Heap) {
	u := fr.u
	mt, ok := x.X.Type().Underlying().(*types.Map)
	if !ok {
		u.unsupportedAt(reach, "string index")
		fr.havocVal(x, h)
		return
	}
	m := fr.valOf(x.X).T
	k := fr.valOf(x.Index).T
	d, ds, v, vs, _, _ := u.mapComps(mt)
	has := u.define("has", "Bool", and(not(eq(m, "0")), sel(sel(u.comp(h, d, ds), m), k)))
	es := u.so.sortOf(mt.Elem())
	val := u.define("lookup", es, ite(has, sel(sel(u.comp(h, v, vs), m), k), u.so.zero(mt.Elem())))
	u.assume(u.typeInv(val, mt.Elem(), fr.ctr(h)))
	if x.CommaOk {
		fr.tuples[x] = []Val{{T: val, Ty: mt.Elem(), S: es}, {T: has, Ty: types.Typ[types.Bool], S: "Bool"}}
	} else {
		fr.vals[x] = Val{T: val, Ty: mt.Elem(), S: es}
	}
}

// rangeFuns declares the ghost functions of the map-range model for key type kt:
// rangekey(it)[j] is the j-th key produced by iterator it, rangeidx(it, k) the position at
// which key k is produced (which makes the enumeration injective), rangedom(it) the domain
// of the map and rangelen(it) its length when the iteration started.
func (u *Unit) rangeFuns(kt types.Type) (keyF, idxF, domF string) {
	ks := u.so.sortOf(kt)
	k := mangle(typeKey(kt))
	keyF, idxF, domF = "rangekey_"+k, "rangeidx_"+k, "rangedom_"+k
	u.declFun(keyF, "(Int) "+arrSort("Int", ks))
	u.declFun(idxF, "(Int "+ks+") Int")
	u.declFun(domF, "(Int) "+arrSort(ks, "Bool"))
	u.declFun("rangelen", "(Int) Int")
	return
}

// execRange: `range m` over a map creates an iterator (a fresh reference).  Go's semantics
// for a map that is not modified during the iteration (language semantics, like those of
// every other instruction): the iteration produces len(m) keys, each in the map, no key
// twice, in an unspecified order.  The position of the iterator is the heap component
// RangePos; execNext uses the enumeration only for loops that provably leave the map alone.
func (fr *Frame) execRange(x *ssa.Range, mt *types.Map, reach string, h Heap) {
	u := fr.u
	m := fr.valOf(x.X).T
	it := fr.newRef(h, "rangeit")
	keyF, idxF, domF := u.rangeFuns(mt.Key())
	d, ds, _, _, n, ns := u.mapComps(mt)
	dom := sel(u.comp(h, d, ds), m)
	ln := app("rangelen", it)
	u.assume(implies(reach, eq(ln, ite(eq(m, "0"), "0", sel(u.comp(h, n, ns), m)))))
	u.assume(implies(reach, app("<=", "0", ln)))
	u.assume(implies(reach, eq(app(domF, it), dom)))
	u.nfresh++
	j := fmt.Sprintf("j!q%d", u.nfresh)
	kj := sel(app(keyF, it), j)
	u.assume(implies(reach, fmt.Sprintf("(forall ((%s Int)) (! %s :pattern (%s)))", j,
		implies(and(app("<=", "0", j), app("<", j, ln)), and(sel(dom, kj), eq(app(idxF, it, kj), j))), kj)))
	pc := u.comp(h, "RangePos", "(Array Int Int)")
	h["RangePos"] = u.define("RangePos", "(Array Int Int)", sto(pc, it, "0"))
	fr.vals[x] = Val{T: it, Ty: x.Type(), S: "Int"}
}

// mapRangeOf: the map Range instruction iterated by x when the enumeration model applies:
// the loop around x must not modify any map of that type (directly or through calls).
func (fr *Frame) mapRangeOf(x *ssa.Next) (*ssa.Range, *types.Map) {
	rg, isR := x.Iter.(*ssa.Range)
	if !isR || x.IsString || fr.u.so.bv {
		return nil, nil
	}
	mt, isM := rg.X.Type().Underlying().(*types.Map)
	if !isM {
		return nil, nil
	}
	if v, ok := fr.vals[rg]; !ok || v.T == "0" {
		return nil, nil
	}
	d, _, _, _, _, _ := fr.u.mapComps(mt)
	var li *loopInfo
	for _, l := range fr.loops {
		if l.body[x.Block().Index] && (li == nil || len(l.body) < len(li.body)) {
			li = l
		}
	}
	if li == nil || li.mods[d] || li.body[rg.Block().Index] {
		return nil, nil
	}
	return rg, mt
}

func (fr *Frame) execNext(x *ssa.Next, reach string, h Heap) {
	u := fr.u
	tup := x.Type().(*types.Tuple)
	if rg, mt := fr.mapRangeOf(x); rg != nil {
		it := fr.valOf(rg).T
		m := fr.valOf(rg.X).T
		keyF, _, _ := u.rangeFuns(mt.Key())
		_, _, v, vsrt, _, _ := u.mapComps(mt)
		u.assumed["language semantics: a range over a map that the loop does not modify produces len(m) keys, each in the map, none twice, in an unspecified order"] = true
		pc := u.comp(h, "RangePos", "(Array Int Int)")
		pos := u.define("rangepos", "Int", sel(pc, it))
		ok := u.define("next_ok", "Bool", app("<", pos, app("rangelen", it)))
		ks := u.so.sortOf(mt.Key())
		key := u.define("next_key", ks, ite(ok, sel(app(keyF, it), pos), u.so.zero(mt.Key())))
		vs := []Val{{T: ok, Ty: types.Typ[types.Bool], S: "Bool"}, {T: key, Ty: mt.Key(), S: ks}}
		if b, isB := tup.At(1).Type().(*types.Basic); isB && b.Kind() == types.Invalid {
			vs[1] = Val{T: "0", Ty: tup.At(1).Type(), S: "Int"}
		}
		if tup.Len() > 2 {
			t := tup.At(2).Type()
			if b, isB := t.(*types.Basic); isB && b.Kind() == types.Invalid {
				vs = append(vs, Val{T: "0", Ty: t, S: "Int"})
			} else {
				es := u.so.sortOf(mt.Elem())
				val := u.define("next_val", es, ite(ok, sel(sel(u.comp(h, v, vsrt), m), key), u.so.zero(mt.Elem())))
				u.assume(u.typeInv(val, mt.Elem(), fr.ctr(h)))
				vs = append(vs, Val{T: val, Ty: mt.Elem(), S: es})
			}
		}
		// model invariant: the position starts at 0 and moves only here, by one, while below the length
		u.assume(implies(reach, and(app("<=", "0", pos), app("<=", pos, app("rangelen", it)))))
		h["RangePos"] = u.define("RangePos", "(Array Int Int)", sto(pc, it, ite(ok, iadd(pos, "1"), pos)))
		fr.tuples[x] = vs
		return
	}
	ok := u.fresh("next_ok", "Bool")
	vs := []Val{{T: ok, Ty: types.Typ[types.Bool], S: "Bool"}}
	for i := 1; i < tup.Len(); i++ {
		t := tup.At(i).Type()
		if b, isB := t.(*types.Basic); isB && b.Kind() == types.Invalid {
			vs = append(vs, Val{T: "0", Ty: t, S: "Int"})
			continue
		}
		vs = append(vs, fr.havocOfType(t, "next", h))
	}
	// map range: the key is in the domain
	if rg, isR := x.Iter.(*ssa.Range); isR && !x.IsString {
		if mt, isM := rg.X.Type().Underlying().(*types.Map); isM && len(vs) > 1 && vs[1].S != "" {
			m := fr.valOf(rg.X).T
			d, ds, v, vsrt, _, _ := u.mapComps(mt)
			u.assume(implies(ok, sel(sel(u.comp(h, d, ds), m), vs[1].T)))
			if len(vs) > 2 && vs[2].S != "" && vs[2].T != "0" {
				u.assume(implies(ok, eq(vs[2].T, sel(sel(u.comp(h, v, vsrt), m), vs[1].T))))
			}
		}
	}
	fr.tuples[x] = vs
}

// ---------------------------------------------------------------- channels (ghost histories)

func (u *Unit) chanElemComp(ct *types.Chan) (string, string) {
	return "ChSent_" + mangle(typeKey(ct.Elem())), arrSort("Int", arrSort("Int", u.so.sortOf(ct.Elem())))
}

func (u *Unit) feedFun(ct *types.Chan) string {
	fn := "feed_" + mangle(typeKey(ct.Elem()))
	u.declFun(fn, "(Int) "+arrSort("Int", u.so.sortOf(ct.Elem())))
	u.declFun("feedlen", "(Int) Int")
	return fn
}

func (fr *Frame) execRecv(x *ssa.UnOp, reach string, h Heap) {
	u := fr.u
	ct := x.X.Type().Underlying().(*types.Chan)
	c := fr.valOf(x.X).T
	fr.safetyOblig("nil-chan", "receive from a nil channel blocks forever", reach, not(eq(c, "0")))
	feed := u.feedFun(ct)
	u.assume(app("<=", "0", app("feedlen", c)))
	rc := u.comp(h, "ChRecv", "(Array Int Int)")
	k := u.define("rcvidx", "Int", sel(rc, c))
	ok := u.define("rcvok", "Bool", app("<", k, app("feedlen", c)))
	es := u.so.sortOf(ct.Elem())
	val := u.define("rcvval", es, ite(ok, sel(app(feed, c), k), u.so.zero(ct.Elem())))
	u.assume(u.typeInv(val, ct.Elem(), fr.ctr(h)))
	u.assume(app("<=", "0", k))
	h["ChRecv"] = u.define("ChRecv", "(Array Int Int)", sto(rc, c, ite(ok, iadd(k, "1"), k)))
	if x.CommaOk {
		fr.tuples[x] = []Val{{T: val, Ty: ct.Elem(), S: es}, {T: ok, Ty: types.Typ[types.Bool], S: "Bool"}}
	} else {
		fr.vals[x] = Val{T: val, Ty: ct.Elem(), S: es}
	}
}

func (fr *Frame) execSend(x *ssa.Send, reach string, h Heap) {
	u := fr.u
	ct := x.Chan.Type().Underlying().(*types.Chan)
	c := fr.valOf(x.Chan).T
	v := fr.valOf(x.X).T
	fr.safetyOblig("nil-chan", "send on a nil channel blocks forever", reach, not(eq(c, "0")))
	cl := u.comp(h, "ChClosed", "(Array Int Int)")
	fr.safetyOblig("send-closed", "send on a closed channel panics", reach, eq(sel(cl, c), "0"))
	sc, ss := u.chanElemComp(ct)
	cur := u.comp(h, sc, ss)
	nn := u.comp(h, "ChSentN", "(Array Int Int)")
	n := sel(nn, c)
	h[sc] = u.define(sc, ss, sto(cur, c, sto(sel(cur, c), n, v)))
	// ghost stamps declared by the contract of the function being executed
	if fr.ct != nil {
		for _, st := range fr.ct.Stamps {
			env := fr.baseEnv(h)
			env.at = x.Block()
			cv := env.eval(st.Chan)
			sv := env.eval(st.Expr)
			stc := u.comp(h, "ChStamp", "(Array Int (Array Int Int))")
			h["ChStamp"] = u.define("ChStamp", "(Array Int (Array Int Int))", ite(eq(cv.T, c), sto(stc, c, sto(sel(stc, c), n, sv.T)), stc))
		}
	}
	h["ChSentN"] = u.define("ChSentN", "(Array Int Int)", sto(nn, c, iadd(n, "1")))
}

func (fr *Frame) execClose(c string, reach string, h Heap) {
	u := fr.u
	cl := u.comp(h, "ChClosed", "(Array Int Int)")
	// closing a closed or nil channel panics; this is the close-at-most-once obligation
	u.oblig("close-once", "channel is open and non-nil when closed (no double close)", implies(reach, and(not(eq(c, "0")), eq(sel(cl, c), "0"))), nil)
	h["ChClosed"] = u.define("ChClosed", "(Array Int Int)", sto(cl, c, "1"))
}

func (fr *Frame) execGo(x *ssa.Go, reach string, h Heap) {
	// A spawned goroutine runs concurrently: its effects on memory are not
	// sequenced here.  What is checked at the go statement: the preconditions of the
	// spawned function's contract (pre@spawn); what is transferred: the permission to
	// close the channels its contract says it closes (they count as closed for the
	// spawner from here on, so a second close or a later send by the spawner is reported).
	u := fr.u
	u.assumed["go statement: the spawned goroutine's effects are abstracted; cross-goroutine composition rests on channel histories (Kahn determinism, assumption K)"] = true
	callee := x.Call.StaticCallee()
	if callee == nil {
		if mc, ok := x.Call.Value.(*ssa.MakeClosure); ok {
			if f, ok := mc.Fn.(*ssa.Function); ok {
				callee = f
			}
		}
	}
	if callee == nil {
		return
	}
	ct := u.eng.lib.Contracts[callee.String()]
	if ct == nil {
		return
	}
	var args []Val
	for _, a := range x.Call.Args {
		if _, isLV := fr.lvs[a]; isLV {
			args = append(args, Val{T: "0", Ty: a.Type(), S: "Int"})
			continue
		}
		args = append(args, fr.valOf(a))
	}
	// argument-flow clauses of the spawner's contract apply to go statements as to calls
	fr.atCallObligations(callee.String(), args, reach, h)
	env := fr.calleeEnv(ct, callee, x.Call.Signature(), args, h, false)
	for _, l := range ct.Lets {
		env.vars[l.Name] = env.eval(l.Expr)
	}
	for _, rq := range ct.Requires {
		if !u.active(rq.Props) {
			continue
		}
		o := u.oblig("pre@spawn", fmt.Sprintf("precondition of the spawned %s: %s", shortKey(callee.String()), rq.Text), implies(reach, env.evalBool(rq.Expr)), rq.Props)
		o.Detail = callee.String()
	}
	for _, m := range ct.Modifies {
		for _, t := range fr.evalModTarget(env, m.Expr, m.Text) {
			if t.comp == "ChClosed" && t.ref != "" && t.inSet == nil {
				cl := u.comp(h, "ChClosed", "(Array Int Int)")
				h["ChClosed"] = u.define("ChClosed", "(Array Int Int)", sto(cl, t.ref, "1"))
			}
		}
	}
}
