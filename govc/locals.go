package main

// Tolerance to renamed locals.
//
// Loop invariants, lets and stamps name local variables of the annotated function.
// A developer who renames a local without touching the contract comment would make
// the contract unbindable, and the check would report obligations it could not even
// generate.  To avoid that alarm for a pure rename, /verif/baseline/locals.json keeps,
// for every function under contract on the unchanged tree, its parameters and local
// variables in declaration order with their types.  When a contract identifier is
// unknown in the current code, and the baseline knows it as the k-th variable of type T
// of that function, and the current function has the same number of variables of type
// T, the k-th of which carries a name the baseline does not know, the identifier is
// bound to that variable.  The rebinding is reported in the evidence.  It cannot make
// a wrong program verify: locals occur only in auxiliary clauses (invariants, lets,
// ghost stamps); whatever they are bound to, every postcondition is still proved of
// the code as it stands.

import (
	"encoding/json"
	"fmt"
	"go/ast"
	"go/types"
	"os"
	"sort"
	"strings"

	"golang.org/x/tools/go/ssa"
)

type localVar struct {
	Name string `json:"name"`
	Type string `json:"type"`
}

// localsOf lists the parameters and named locals of fn in declaration order.
func localsOf(fn *ssa.Function) []localVar {
	seen := map[*types.Var]bool{}
	var vars []*types.Var
	add := func(v *types.Var) {
		if v != nil && !seen[v] && v.Name() != "_" && v.Name() != "" {
			seen[v] = true
			vars = append(vars, v)
		}
	}
	for _, p := range fn.Params {
		if v, ok := p.Object().(*types.Var); ok {
			add(v)
		}
	}
	for _, b := range fn.Blocks {
		for _, ins := range b.Instrs {
			if d, ok := ins.(*ssa.DebugRef); ok {
				if _, isId := d.Expr.(*ast.Ident); isId {
					if v, ok := d.Object().(*types.Var); ok && !v.IsField() {
						add(v)
					}
				}
			}
		}
	}
	sort.SliceStable(vars, func(i, j int) bool { return vars[i].Pos() < vars[j].Pos() })
	var out []localVar
	for _, v := range vars {
		out = append(out, localVar{v.Name(), types.TypeString(v.Type(), nil)})
	}
	return out
}

func (e *Engine) writeBaselineLocals(path string) error {
	tab := map[string][]localVar{}
	for _, k := range e.lib.sortedContractKeys() {
		ct := e.lib.Contracts[k]
		if ct.Trusted {
			continue
		}
		if fn := e.fnByKey[k]; fn != nil && fn.Blocks != nil {
			tab[k] = localsOf(fn)
		}
	}
	data, err := json.MarshalIndent(tab, "", " ")
	if err != nil {
		return err
	}
	return os.WriteFile(path, data, 0o644)
}

var baselineLocals map[string][]localVar

func loadBaselineLocals(path string) {
	data, err := os.ReadFile(path)
	if err != nil {
		return
	}
	json.Unmarshal(data, &baselineLocals)
}

// renamedLocal returns the current name of the variable the unchanged tree called name
// in function fn, when that can be told unambiguously; "" otherwise.
func renamedLocal(fnKey string, fn *ssa.Function, name string) string {
	base := baselineLocals[fnKey]
	if base == nil {
		return ""
	}
	baseNames := map[string]bool{}
	typ, ord, found := "", 0, false
	count := map[string]int{}
	for _, v := range base {
		baseNames[v.Name] = true
		if v.Name == name && !found {
			typ, ord, found = v.Type, count[v.Type], true
		}
		count[v.Type]++
	}
	if !found {
		return ""
	}
	cur := localsOf(fn)
	n, cand := 0, ""
	for _, v := range cur {
		if v.Type == typ {
			if n == ord {
				cand = v.Name
			}
			n++
		}
	}
	if n != count[typ] || cand == "" || baseNames[cand] {
		return ""
	}
	return cand
}

// ---- renamed functions --------------------------------------------------------
//
// Contracts are keyed by function name.  /verif/baseline/functions.json lists every
// function of the repository on the unchanged tree with its signature.  A contract whose
// function no longer exists is rebound to a function of the same package, receiver and
// signature whose name the baseline does not know, when there is exactly one.

var baselineFunctionsPath = "/verif/baseline/functions.json"

func fnSig(fn *ssa.Function) string {
	recv := ""
	if r := fn.Signature.Recv(); r != nil {
		recv = types.TypeString(r.Type(), nil) + " "
	}
	pkg := ""
	if fn.Pkg != nil {
		pkg = fn.Pkg.Pkg.Path()
	}
	return pkg + " " + recv + types.TypeString(fn.Signature, nil)
}

func (e *Engine) writeBaselineFunctions(path string) error {
	tab := map[string]string{}
	for k, fn := range e.fnByKey {
		if fn.Pkg != nil && e.inRepoStrict(fn) {
			tab[k] = fnSig(fn)
		}
	}
	data, err := json.MarshalIndent(tab, "", " ")
	if err != nil {
		return err
	}
	return os.WriteFile(path, data, 0o644)
}

// rebindRenamedFunctions moves contracts of vanished functions to their renamed successors.
func (e *Engine) rebindRenamedFunctions() {
	data, err := os.ReadFile(baselineFunctionsPath)
	if err != nil {
		return
	}
	base := map[string]string{}
	if json.Unmarshal(data, &base) != nil {
		return
	}
	for _, k := range e.lib.sortedContractKeys() {
		if strings.HasPrefix(k, "invoke ") || e.fnByKey[k] != nil {
			continue
		}
		sig, known := base[k]
		if !known {
			continue
		}
		var cands []string
		for nk, fn := range e.fnByKey {
			if _, old := base[nk]; old || fn.Pkg == nil || !e.inRepoStrict(fn) || e.lib.Contracts[nk] != nil {
				continue
			}
			if fnSig(fn) == sig {
				cands = append(cands, nk)
			}
		}
		if len(cands) != 1 {
			continue
		}
		ct := e.lib.Contracts[k]
		delete(e.lib.Contracts, k)
		ct.RenamedFrom = k
		e.lib.Contracts[cands[0]] = ct
		e.renamed = append(e.renamed, fmt.Sprintf("contract of %s applied to %s (same package, receiver and signature; a name the unchanged tree does not have)", shortKey(k), shortKey(cands[0])))
	}
}


var baselineFunctionNames map[string]string

// knownOnBaseline: did the unchanged tree have a function of this name?
func knownOnBaseline(key string) bool {
	if baselineFunctionNames == nil {
		baselineFunctionNames = map[string]string{}
		if data, err := os.ReadFile(baselineFunctionsPath); err == nil {
			json.Unmarshal(data, &baselineFunctionNames)
		}
		if len(baselineFunctionNames) == 0 {
			baselineFunctionNames["?"] = "" // no table: treat every function as known
		}
	}
	if _, noTable := baselineFunctionNames["?"]; noTable {
		return true
	}
	_, ok := baselineFunctionNames[key]
	return ok
}

// countLoopHeaders: number of natural-loop headers of fn.
func countLoopHeaders(fn *ssa.Function) int {
	hdr := map[int]bool{}
	for _, b := range fn.Blocks {
		for _, s := range b.Succs {
			if s.Dominates(b) {
				hdr[s.Index] = true
			}
		}
	}
	return len(hdr)
}
