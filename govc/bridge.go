package main

// Bridge lemmas between the bit-level (bv mode) contract of the bit readers
// and the byte-arithmetic expansion used by int-mode callers.

func (e *Engine) bridgeObligations(prop string) []*Oblig {
	return nil
}
