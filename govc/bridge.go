package main

// Bridge lemmas (property C14).
//
// Int-mode callers read bits(s, p, n) with literal p, n as arithmetic over the
// bytes holding the field (spec.go: bitsLiteral).  That reading is justified
// against the bit-level contract of GetBitsAsUint64 / GetBitsAsInt64 (which is
// proved on the real code in bv mode) by one finite bit-vector lemma per
// (p mod 8, n): every r that satisfies the bitwise postcondition equals the
// byte-arithmetic value.  The lemmas are over symbolic bytes, so they hold for
// every buffer content.

import (
	"fmt"
	"strings"
)

func bridgeQuery(a, n int, signed bool) string {
	var b strings.Builder
	b.WriteString("(set-logic QF_BV)\n")
	hi := (a + n - 1) / 8
	for j := 0; j <= hi; j++ {
		fmt.Fprintf(&b, "(declare-const b%d (_ BitVec 8))\n", j)
	}
	b.WriteString("(declare-const r (_ BitVec 64))\n")
	// bitwise postcondition of the reader
	for k := 0; k < n; k++ {
		s := n - 1 - k
		j := (a + k) / 8
		t := 7 - (a+k)%8
		fmt.Fprintf(&b, "(assert (= ((_ extract %d %d) r) ((_ extract %d %d) b%d)))\n", s, s, t, t, j)
	}
	if n < 64 {
		if signed {
			// sign extension: every higher bit equals the field's first bit
			t := 7 - a%8
			for s := n; s < 64; s++ {
				fmt.Fprintf(&b, "(assert (= ((_ extract %d %d) r) ((_ extract %d %d) b0)))\n", s, s, t, t)
			}
		} else {
			fmt.Fprintf(&b, "(assert (= ((_ extract 63 %d) r) (_ bv0 %d)))\n", n, 64-n)
		}
	}
	// byte-arithmetic value: (concat b0..bhi) >> trailing, low n bits
	v := "b0"
	for j := 1; j <= hi; j++ {
		v = fmt.Sprintf("(concat %s b%d)", v, j)
	}
	trailing := 8*(hi+1) - (a + n)
	field := fmt.Sprintf("((_ extract %d %d) %s)", trailing+n-1, trailing, v)
	val := field
	if n < 64 {
		ext := "zero_extend"
		if signed {
			ext = "sign_extend"
		}
		val = fmt.Sprintf("((_ %s %d) %s)", ext, 64-n, field)
	}
	fmt.Fprintf(&b, "(assert (not (= r %s)))\n(check-sat)\n", val)
	return b.String()
}

func (e *Engine) bridgeObligations(prop string) []*Oblig {
	if prop != "C14" {
		return nil
	}
	var out []*Oblig
	for a := 0; a < 8; a++ {
		for n := 1; n <= 64; n++ {
			out = append(out, &Oblig{Name: fmt.Sprintf("bridge/bits[%d,%d]", a, n), Kind: "bridge", Fn: "spec:bits",
				Clause: fmt.Sprintf("bitwise contract of GetBitsAsUint64 implies the byte-arithmetic value of bits(s, 8q+%d, %d)", a, n),
				Props: []string{"C14"}, Raw: bridgeQuery(a, n, false)})
			if n >= 2 {
				out = append(out, &Oblig{Name: fmt.Sprintf("bridge/sbits[%d,%d]", a, n), Kind: "bridge", Fn: "spec:sbits",
					Clause: fmt.Sprintf("bitwise contract of GetBitsAsInt64 implies the two's-complement byte-arithmetic value of sbits(s, 8q+%d, %d)", a, n),
					Props: []string{"C14"}, Raw: bridgeQuery(a, n, true)})
			}
		}
	}
	return out
}
