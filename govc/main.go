package main

import (
	"flag"
	"fmt"
	"os"
	"sort"
	"strings"
	"time"
)

func main() {
	repo := flag.String("repo", "/repo", "scratch copy of the repository working tree")
	spec := flag.String("spec", "/verif/spec", "directory with shared *.spec files")
	fnKey := flag.String("fn", "", "verify a single function (debug)")
	prop := flag.String("prop", "", "property id to check")
	tier := flag.String("tier", "quick", "quick|thorough")
	work := flag.String("work", "", "directory for SMT files")
	evidence := flag.String("evidence", "", "evidence file to write")
	replayDir := flag.String("replays", "/verif/replays", "directory for replay files")
	known := flag.String("known", "/verif/known_findings.txt", "known findings file")
	timeout := flag.Int("timeout", 0, "per-obligation timeout in seconds (0 = tier default)")
	keep := flag.Bool("keep", false, "keep all SMT files")
	verbose := flag.Bool("v", false, "verbose")
	dump := flag.String("dump", "", "dump the query of the named obligation")
	list := flag.Bool("list", false, "list contracts")
	flag.BoolVar(&noReplay, "noreplay", false, "do not search for failing inputs when an obligation fails (must-fail corpus)")
	lemmas := flag.Bool("lemmas", false, "prove all spec-level lemmas (debug)")
	localsOut := flag.String("locals-out", "", "write the baseline table of locals (run on the unchanged tree) and exit")
	localsIn := flag.String("locals", "/verif/baseline/locals.json", "baseline table of locals (tolerance to renamed locals)")
	replayFile := flag.String("replayfile", "", "re-run the property's oracle with the hints recorded in this replay file")
	flag.Parse()

	start := time.Now()
	eng, err := loadEngine(*repo, *spec)
	if err != nil {
		fmt.Fprintln(os.Stderr, "govc: load failed:", err)
		os.Exit(2)
	}
	if *verbose {
		fmt.Fprintf(os.Stderr, "loaded in %.1fs; %d contracts\n", time.Since(start).Seconds(), len(eng.lib.Contracts))
	}
	if *list {
		for _, k := range eng.lib.sortedContractKeys() {
			fmt.Println(k)
		}
		return
	}
	if *work == "" {
		d, _ := os.MkdirTemp("", "govc-smt-")
		*work = d
		if !*keep {
			defer os.RemoveAll(d)
		}
	}
	to := *timeout
	if to == 0 {
		to = 20
		if *tier == "thorough" {
			to = 60
		}
	}
	opts := solveOpts{timeoutSec: to, workDir: *work, allAgree: *tier == "thorough", keep: *keep, par: 16}
	if *localsOut != "" {
		if err := eng.writeBaselineFunctions(strings.TrimSuffix(*localsOut, "locals.json") + "functions.json"); err != nil {
			fmt.Fprintln(os.Stderr, "govc:", err)
			os.Exit(2)
		}
		if err := eng.writeBaselineLocals(*localsOut); err != nil {
			fmt.Fprintln(os.Stderr, "govc:", err)
			os.Exit(2)
		}
		return
	}
	loadBaselineLocals(*localsIn)
	if *replayFile != "" {
		os.Exit(replayOnly(eng, *prop, *replayFile))
	}
	if *lemmas {
		var obls []*Oblig
		for _, ax := range eng.lib.Axioms {
			if ax.Lemma {
				obls = append(obls, eng.lemmaObligation(ax, *prop))
			}
		}
		if *dump != "" {
			for _, o := range obls {
				if strings.Contains(o.Name, *dump) {
					fmt.Print(o.query(to))
				}
			}
			return
		}
		dischargeAll(obls, opts)
		for _, o := range obls {
			fmt.Printf("%-40s %-8s %-8s %5dms\n", o.Name, o.Result, o.Solver, o.Ms)
		}
		return
	}
	if *fnKey != "" {
		key := resolveKey(eng, *fnKey)
		u, err := eng.verifyFunctionFor(key, *prop)
		if err != nil {
			fmt.Fprintln(os.Stderr, "govc:", err)
			os.Exit(2)
		}
		if *dump != "" {
			for _, o := range u.obls {
				if o.Name == *dump || strings.HasSuffix(o.Name, *dump) {
					fmt.Print(o.query(to))
				}
			}
			return
		}
		dischargeAll(u.obls, opts)
		bad := 0
		for _, o := range u.obls {
			mark := "ok  "
			if !o.ok() {
				mark = "FAIL"
				bad++
			}
			if !o.ok() && o.Result == "sat" && os.Getenv("GOVC_HINTS") != "" {
				fmt.Println("  hints:", modelHints(o, *work))
			}
			if *verbose || !o.ok() {
				fmt.Printf("%s %-60s %-8s %-7s %5dms  %s  [%s] %s\n", mark, o.Name, o.Result, o.Solver, o.Ms, strings.Join(o.Props, ","), o.Pos, trunc(o.Clause, 100))
			}
		}
		fmt.Printf("%s: %d obligations, %d failed, %.1fs\n", key, len(u.obls), bad, time.Since(start).Seconds())
		for _, m := range u.unsupported {
			fmt.Println("  unsupported:", m)
		}
		if *verbose {
			for _, a := range sortedKeys(u.assumed) {
				fmt.Println("  assumed:", a)
			}
		}
		if bad > 0 {
			os.Exit(1)
		}
		return
	}
	if *prop != "" {
		os.Exit(runProperty(eng, *prop, *tier, opts, *evidence, *replayDir, *known, *verbose, start))
	}
	flag.Usage()
	os.Exit(2)
}

func resolveKey(e *Engine, k string) string {
	if e.fnByKey[k] != nil {
		return k
	}
	var cands []string
	for key := range e.fnByKey {
		if strings.HasSuffix(key, k) && strings.HasPrefix(key, "") && strings.Contains(key, e.modPath) {
			cands = append(cands, key)
		}
	}
	sort.Strings(cands)
	if len(cands) == 1 {
		return cands[0]
	}
	if len(cands) > 1 {
		// prefer exact ".name" match
		for _, c := range cands {
			if strings.HasSuffix(c, "."+k) || strings.HasSuffix(c, ")."+k) {
				return c
			}
		}
		fmt.Fprintln(os.Stderr, "ambiguous:", cands)
	}
	return k
}
