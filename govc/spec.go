package main

// Evaluation of specification expressions (Go expression syntax with a few
// extra functions) into SMT terms, relative to a symbolic state.

import (
	"fmt"
	"go/ast"
	"go/constant"
	"go/token"
	"go/types"
	"math/big"
	"strconv"
	"strings"

	"golang.org/x/tools/go/ssa"
)

type Env struct {
	u       *Unit
	vars    map[string]Val
	oldVars map[string]Val
	heap    Heap
	old     Heap
	fr      *Frame
	pkg     *ssa.Package
	at      *ssa.BasicBlock
	loop    *loopInfo
	depth   int
	results []Val
	noHeap  bool
}

func (u *Unit) newEnv(h Heap) *Env {
	return &Env{u: u, vars: map[string]Val{}, heap: h, old: h}
}

func (fr *Frame) baseEnv(h Heap) *Env {
	env := fr.u.newEnv(h)
	env.old = fr.entryHeap
	env.fr = fr
	env.pkg = fr.fn.Pkg
	for k, v := range fr.names {
		env.vars[k] = v
	}
	return env
}

func (e *Env) clone() *Env {
	n := *e
	n.vars = map[string]Val{}
	for k, v := range e.vars {
		n.vars[k] = v
	}
	return &n
}

func (e *Env) bindResults(res []Val, sig *types.Signature) {
	e.results = res
	for i, r := range res {
		e.vars[fmt.Sprintf("r%d", i)] = r
		if n := sig.Results().At(i).Name(); n != "" && n != "_" {
			if _, exists := e.vars[n]; !exists {
				e.vars[n] = r
			}
		}
	}
	if len(res) == 1 {
		e.vars["result"] = res[0]
	}
}

func (e *Env) fail(format string, a ...interface{}) Val {
	panic(specError{fmt.Sprintf(format, a...)})
}

type specError struct{ msg string }

func (e *Env) evalBool(x ast.Expr) string {
	v := e.eval(x)
	if v.S != "Bool" {
		e.fail("expected Bool, got %s for %s", v.S, exprString(x))
	}
	return v.T
}

func exprString(x ast.Expr) string {
	return types.ExprString(x)
}

var boolT = types.Typ[types.Bool]
var intT = types.Typ[types.Int]

func bval(t string) Val { return Val{T: t, Ty: boolT, S: "Bool"} }

func (e *Env) ival(t string) Val {
	if e.u.so.bv {
		return Val{T: t, Ty: intT, S: "(_ BitVec 64)"}
	}
	return Val{T: t, Ty: intT, S: "Int"}
}

func (e *Env) intLit(v *big.Int) Val {
	if e.u.so.bv {
		return Val{T: bvLit(v, 64), Ty: nil, S: "(_ BitVec 64)"}
	}
	return Val{T: ilitB(v), Ty: nil, S: "Int"}
}

// coerce makes two integer operands agree on sort (bv widths / literals / reals).
func (e *Env) coerce(a, b Val) (Val, Val) {
	if a.S == b.S {
		return a, b
	}
	if a.S == "Real" && (b.S == "Int") {
		if v, ok := parseLit(b.T); ok {
			return a, Val{T: ratLit(new(big.Rat).SetInt(v)), S: "Real"}
		}
		return a, Val{T: app("to_real", b.T), S: "Real"}
	}
	if b.S == "Real" && a.S == "Int" {
		y, x := e.coerce(b, a)
		return x, y
	}
	if isBVSort(a.S) && isBVSort(b.S) {
		wa, wb := bvWidth(a.S), bvWidth(b.S)
		// literals (Ty == nil) adapt to the other operand
		if a.Ty == nil && strings.HasPrefix(a.T, "(_ bv") {
			return Val{T: relit(a.T, wb), Ty: b.Ty, S: b.S}, b
		}
		if b.Ty == nil && strings.HasPrefix(b.T, "(_ bv") {
			return a, Val{T: relit(b.T, wa), Ty: a.Ty, S: a.S}
		}
		if wa < wb {
			return e.extend(a, wb), b
		}
		return a, e.extend(b, wa)
	}
	return a, b
}

func relit(t string, w uint) string {
	var v string
	var ow uint
	fmt.Sscanf(t, "(_ bv%s %d)", &v, &ow)
	v = strings.TrimSpace(v)
	n, _ := new(big.Int).SetString(v, 10)
	// a literal that was negative at width ow keeps its sign
	if n.Cmp(pow2(ow-1)) >= 0 {
		n.Sub(n, pow2(ow))
	}
	return bvLit(n, w)
}

func (e *Env) extend(a Val, w uint) Val {
	wa := bvWidth(a.S)
	op := "zero_extend"
	if isSigned(a.Ty) && a.Ty != nil {
		op = "sign_extend"
	}
	return Val{T: fmt.Sprintf("((_ %s %d) %s)", op, w-wa, a.T), Ty: a.Ty, S: fmt.Sprintf("(_ BitVec %d)", w)}
}

func (e *Env) eval(x ast.Expr) Val {
	u := e.u
	so := u.so
	switch n := x.(type) {
	case *ast.ParenExpr:
		return e.eval(n.X)
	case *ast.BasicLit:
		switch n.Kind {
		case token.INT:
			v, ok := new(big.Int).SetString(n.Value, 0)
			if !ok {
				e.fail("bad int literal %s", n.Value)
			}
			return e.intLit(v)
		case token.STRING:
			s, _ := strconv.Unquote(n.Value)
			return Val{T: so.strLit(s), Ty: types.Typ[types.String], S: "Str"}
		case token.FLOAT:
			r, ok := new(big.Rat).SetString(n.Value)
			if !ok {
				e.fail("bad float literal")
			}
			return Val{T: ratLit(r), S: "Real"}
		}
	case *ast.Ident:
		return e.ident(n.Name)
	case *ast.UnaryExpr:
		v := e.eval(n.X)
		switch n.Op {
		case token.NOT:
			return bval(not(v.T))
		case token.SUB:
			if v.S == "Real" {
				return Val{T: app("-", v.T), S: "Real"}
			}
			if isBVSort(v.S) {
				return Val{T: app("bvneg", v.T), Ty: v.Ty, S: v.S}
			}
			return Val{T: isub("0", v.T), Ty: v.Ty, S: "Int"}
		}
	case *ast.BinaryExpr:
		return e.binary(n)
	case *ast.SelectorExpr:
		return e.selector(n)
	case *ast.IndexExpr:
		return e.index(n)
	case *ast.CallExpr:
		return e.callExpr(n)
	case *ast.StarExpr:
		v := e.eval(n.X)
		return e.deref(v)
	}
	return e.fail("unsupported spec expression %s (%T)", exprString(x), x)
}

func (e *Env) ident(name string) Val {
	u := e.u
	switch name {
	case "true":
		return bval("true")
	case "false":
		return bval("false")
	case "nil":
		return Val{T: "NIL", S: "NIL"}
	}
	if v, ok := e.vars[name]; ok {
		return v
	}
	if e.fr != nil {
		if v, ok := e.fr.lookupLocal(name, e); ok {
			return v
		}
	}
	// package-level constant or variable
	if e.pkg != nil {
		if v, ok := e.pkgMember(e.pkg, name); ok {
			return v
		}
	}
	if m, ok := u.eng.lib.Macros[name]; ok && len(m.Params) == 0 {
		return e.expandMacro(m, nil)
	}
	if e.fr != nil {
		// a local that was renamed since the contracts were written (see locals.go)
		if nn := renamedLocal(e.fr.fn.String(), e.fr.fn, name); nn != "" {
			v, ok := e.vars[nn]
			if !ok {
				v, ok = e.fr.lookupLocal(nn, e)
			}
			if ok {
				u.assumed[fmt.Sprintf("contract identifier %s of %s bound to the local now called %s (same type and declaration position as on the unchanged tree)", name, shortKey(e.fr.fn.String()), nn)] = true
				return v
			}
		}
	}
	return e.fail("unknown identifier %s", name)
}

func (e *Env) pkgMember(pkg *ssa.Package, name string) (Val, bool) {
	u := e.u
	so := u.so
	mem := pkg.Members[name]
	switch m := mem.(type) {
	case *ssa.NamedConst:
		c := m.Value
		t := c.Type()
		if _, _, ok := intInfo(t); ok {
			v, _ := new(big.Int).SetString(constant.ToInt(c.Value).ExactString(), 10)
			if so.bv {
				return Val{T: bvLit(v, 64), Ty: nil, S: "(_ BitVec 64)"}, true
			}
			return Val{T: ilitB(v), Ty: t, S: "Int"}, true
		}
		switch c.Value.Kind() {
		case constant.String:
			return Val{T: so.strLit(constant.StringVal(c.Value)), Ty: t, S: "Str"}, true
		case constant.Bool:
			if constant.BoolVal(c.Value) {
				return bval("true"), true
			}
			return bval("false"), true
		case constant.Float:
			f, _ := constant.Float64Val(c.Value)
			r := new(big.Rat)
			r.SetFloat64(f)
			return Val{T: ratLit(r), Ty: t, S: "Real"}, true
		}
	case *ssa.Global:
		c, s := u.globComp(m)
		t := m.Type().(*types.Pointer).Elem()
		return Val{T: u.comp(e.heap, c, s), Ty: t, S: s}, true
	}
	return Val{}, false
}

func (e *Env) binary(n *ast.BinaryExpr) Val {
	u := e.u
	switch n.Op {
	case token.LAND:
		return bval(and(e.evalBool(n.X), e.evalBool(n.Y)))
	case token.LOR:
		return bval(or(e.evalBool(n.X), e.evalBool(n.Y)))
	}
	a := e.eval(n.X)
	b := e.eval(n.Y)
	// nil comparisons
	if a.S == "NIL" || b.S == "NIL" {
		other := a
		if a.S == "NIL" {
			other = b
		}
		var t string
		switch other.S {
		case "Iface":
			t = eq(app("i_tag", other.T), "0")
		case "Slice", "SliceBV":
			t = eq(app("s_arr", other.T), "0")
		case "Int":
			t = eq(other.T, "0")
		default:
			e.fail("nil comparison with %s", other.S)
		}
		if n.Op == token.NEQ {
			t = not(t)
		}
		return bval(t)
	}
	a, b = e.coerce(a, b)
	if a.S == "Bool" {
		switch n.Op {
		case token.EQL:
			return bval(eq(a.T, b.T))
		case token.NEQ:
			return bval(not(eq(a.T, b.T)))
		}
	}
	if a.S == "Real" {
		switch n.Op {
		case token.ADD:
			return Val{T: app("+", a.T, b.T), S: "Real"}
		case token.SUB:
			return Val{T: app("-", a.T, b.T), S: "Real"}
		case token.MUL:
			return Val{T: app("*", a.T, b.T), S: "Real"}
		case token.QUO:
			return Val{T: app("/", a.T, b.T), S: "Real"}
		case token.EQL:
			return bval(eq(a.T, b.T))
		case token.NEQ:
			return bval(not(eq(a.T, b.T)))
		case token.LSS:
			return bval(app("<", a.T, b.T))
		case token.LEQ:
			return bval(app("<=", a.T, b.T))
		case token.GTR:
			return bval(app(">", a.T, b.T))
		case token.GEQ:
			return bval(app(">=", a.T, b.T))
		}
	}
	if isBVSort(a.S) {
		ty := a.Ty
		if ty == nil {
			ty = b.Ty
		}
		if ty == nil {
			ty = types.Typ[types.Uint64]
		}
		switch n.Op {
		case token.EQL, token.NEQ, token.LSS, token.LEQ, token.GTR, token.GEQ:
			return bval(u.intCmp(n.Op, a.T, b.T, ty))
		}
		// arithmetic at the operand width
		var fake types.Type = ty
		if bvWidth(a.S) != 64 {
			fake = ty
		}
		r, _, err := u.intBinop(n.Op, a.T, b.T, fake, fake)
		if err != "" {
			e.fail("%s", err)
		}
		return Val{T: r, Ty: ty, S: a.S}
	}
	if a.S == "Int" {
		switch n.Op {
		case token.ADD:
			return Val{T: iadd(a.T, b.T), Ty: a.Ty, S: "Int"}
		case token.SUB:
			return Val{T: isub(a.T, b.T), Ty: a.Ty, S: "Int"}
		case token.MUL:
			return Val{T: imul(a.T, b.T), Ty: a.Ty, S: "Int"}
		case token.QUO:
			if y, ok := parseLit(b.T); ok && y.Sign() > 0 {
				return Val{T: idivc(a.T, y), Ty: a.Ty, S: "Int"}
			}
			return Val{T: app("div", a.T, b.T), Ty: a.Ty, S: "Int"}
		case token.REM:
			if y, ok := parseLit(b.T); ok && y.Sign() > 0 {
				return Val{T: imodc(a.T, y), Ty: a.Ty, S: "Int"}
			}
			return Val{T: app("mod", a.T, b.T), Ty: a.Ty, S: "Int"}
		case token.SHL:
			if k, ok := parseLit(b.T); ok {
				return Val{T: imul(a.T, ilitB(pow2(uint(k.Uint64())))), Ty: a.Ty, S: "Int"}
			}
		case token.SHR:
			if k, ok := parseLit(b.T); ok {
				return Val{T: idivc(a.T, pow2(uint(k.Uint64()))), Ty: a.Ty, S: "Int"}
			}
		case token.EQL, token.NEQ, token.LSS, token.LEQ, token.GTR, token.GEQ:
			return bval(u.intCmp(n.Op, a.T, b.T, nil))
		}
	}
	switch n.Op {
	case token.EQL:
		return bval(eq(a.T, b.T))
	case token.NEQ:
		return bval(not(eq(a.T, b.T)))
	case token.ADD:
		if a.S == "Str" {
			return Val{T: app("strcat", a.T, b.T), Ty: a.Ty, S: "Str"}
		}
	}
	return e.fail("unsupported binary %s on %s", n.Op, a.S)
}

// deref loads the object a pointer value denotes.
func (e *Env) deref(v Val) Val {
	u := e.u
	pt, ok := v.Ty.Underlying().(*types.Pointer)
	if !ok {
		return e.fail("deref of non-pointer %v", v.Ty)
	}
	return Val{T: u.loadPtr(e.heap, v.T, pt.Elem()), Ty: pt.Elem(), S: u.so.sortOf(pt.Elem())}
}

func (e *Env) selector(n *ast.SelectorExpr) Val {
	u := e.u
	// package-qualified name
	if id, ok := n.X.(*ast.Ident); ok {
		if _, isVar := e.vars[id.Name]; !isVar {
			if pkg := u.eng.pkgByName(id.Name, e.pkg); pkg != nil {
				if e.fr == nil || !e.fr.hasLocal(id.Name) {
					if v, ok := e.pkgMember(pkg, n.Sel.Name); ok {
						return v
					}
					return e.fail("unknown package member %s.%s", id.Name, n.Sel.Name)
				}
			}
		}
	}
	v := e.eval(n.X)
	return e.fieldOf(v, n.Sel.Name)
}

func (e *Env) fieldOf(v Val, name string) Val {
	u := e.u
	if v.Ty == nil {
		return e.fail("field %s of untyped value", name)
	}
	// model fields
	tk := typeKey(derefType(v.Ty))
	if ts := u.eng.lib.Types[tk]; ts != nil {
		if m, ok := ts.Models[name]; ok {
			return e.expandMacro(m, []Val{v})
		}
	}
	if _, ok := v.Ty.Underlying().(*types.Pointer); ok {
		v = e.deref(v)
	}
	if isTime(v.Ty) {
		switch name {
		case "ns":
			return Val{T: app("t_ns", v.T), Ty: types.Typ[types.Int64], S: "Int"}
		case "loc":
			return Val{T: app("t_loc", v.T), Ty: types.Typ[types.Int64], S: "Int"}
		}
	}
	st, ok := v.Ty.Underlying().(*types.Struct)
	if !ok {
		return e.fail("field %s of non-struct %v", name, v.Ty)
	}
	for i := 0; i < st.NumFields(); i++ {
		f := st.Field(i)
		if f.Name() == name {
			return Val{T: u.so.getField(v.S, v.T, i), Ty: f.Type(), S: u.so.sortOf(f.Type())}
		}
	}
	// promoted through embedded fields
	for i := 0; i < st.NumFields(); i++ {
		f := st.Field(i)
		if f.Embedded() {
			if _, ok := derefType(f.Type()).Underlying().(*types.Struct); ok {
				inner := Val{T: u.so.getField(v.S, v.T, i), Ty: f.Type(), S: u.so.sortOf(f.Type())}
				return e.fieldOf(inner, name)
			}
		}
	}
	return e.fail("no field %s in %v", name, v.Ty)
}

func derefType(t types.Type) types.Type {
	if p, ok := t.Underlying().(*types.Pointer); ok {
		return p.Elem()
	}
	return t
}

func (e *Env) index(n *ast.IndexExpr) Val {
	u := e.u
	so := u.so
	v := e.eval(n.X)
	i := e.eval(n.Index)
	switch {
	case v.S == "Slice" || v.S == "SliceBV":
		st := v.Ty.Underlying().(*types.Slice)
		c, s := u.elemComp(st.Elem())
		idx := i.T
		if so.bv {
			i, _ = e.coerce(i, Val{T: "(_ bv0 64)", Ty: types.Typ[types.Uint64], S: "(_ BitVec 64)"})
			idx = app("bvadd", app("s_off", v.T), i.T)
		} else {
			idx = iadd(app("s_off", v.T), i.T)
		}
		return Val{T: sel(sel(u.comp(e.heap, c, s), app("s_arr", v.T)), idx), Ty: st.Elem(), S: so.sortOf(st.Elem())}
	case v.S == "SeqI":
		return Val{T: sel(app("q_arr", v.T), i.T), Ty: types.Typ[types.Uint8], S: "Int"}
	case strings.HasPrefix(v.S, "(Array "):
		args := splitArgs(v.S[1 : len(v.S)-1])
		var et types.Type
		if v.Ty != nil {
			if at, ok := v.Ty.Underlying().(*types.Array); ok {
				et = at.Elem()
			}
			if sq, ok := v.Ty.(*seqType); ok {
				et = sq.elem
			}
		}
		return Val{T: sel(v.T, i.T), Ty: et, S: args[2]}
	case v.Ty != nil:
		if mt, ok := v.Ty.Underlying().(*types.Map); ok {
			_, _, vv, vs, _, _ := u.mapComps(mt)
			return Val{T: sel(sel(u.comp(e.heap, vv, vs), v.T), i.T), Ty: mt.Elem(), S: so.sortOf(mt.Elem())}
		}
	}
	return e.fail("cannot index %s", v.S)
}

// seqType marks specification-level sequences (SMT arrays) with a Go element type.
type seqType struct {
	types.Type
	elem types.Type
}

func (s *seqType) Underlying() types.Type { return s }
func (s *seqType) String() string         { return "seq[" + s.elem.String() + "]" }

func (e *Env) expandMacro(m *Macro, args []Val) Val {
	if len(args) != len(m.Params) {
		e.fail("macro %s expects %d arguments, got %d", m.Name, len(m.Params), len(args))
	}
	if e.depth > 40 {
		e.fail("macro expansion too deep (%s)", m.Name)
	}
	sub := e.clone()
	sub.depth = e.depth + 1
	for i, p := range m.Params {
		sub.vars[p] = args[i]
	}
	return sub.eval(m.Body)
}

func (e *Env) quant(kind string, n *ast.CallExpr) Val {
	if len(n.Args) != 4 && !(len(n.Args) == 5 && kind == "forall") {
		e.fail("%s(k, lo, hi, body[, trigger])", kind)
	}
	id, ok := n.Args[0].(*ast.Ident)
	if !ok {
		e.fail("%s: first argument must be an identifier", kind)
	}
	lo := e.eval(n.Args[1])
	hi := e.eval(n.Args[2])
	u := e.u
	if u.so.bv {
		// bounded expansion with literal bounds
		l, ok1 := bvLitVal(lo.T)
		h, ok2 := bvLitVal(hi.T)
		if !ok1 || !ok2 || h-l > 128 {
			e.fail("bv mode quantifier needs small literal bounds")
		}
		var parts []string
		for k := l; k < h; k++ {
			sub := e.clone()
			sub.vars[id.Name] = Val{T: bvLit(big.NewInt(k), 64), Ty: nil, S: "(_ BitVec 64)"}
			parts = append(parts, sub.evalBool(n.Args[3]))
		}
		if kind == "forall" {
			return bval(and(parts...))
		}
		return bval(or(parts...))
	}
	u.nfresh++
	k := fmt.Sprintf("%s!q%d", id.Name, u.nfresh)
	sub := e.clone()
	sub.vars[id.Name] = Val{T: k, Ty: intT, S: "Int"}
	body := sub.evalBool(n.Args[3])
	rng := and(icmp("<=", lo.T, k), icmp("<", k, hi.T))
	if len(n.Args) == 5 {
		// explicit trigger term (it must mention the bound variable)
		pat := sub.eval(n.Args[4]).T
		if !strings.Contains(pat, k) {
			e.fail("forall: the trigger does not mention %s", id.Name)
		}
		return bval(fmt.Sprintf("(forall ((%s Int)) (! %s :pattern (%s)))", k, implies(rng, body), pat))
	}
	if kind == "forall" {
		// Re-index by the absolute array index when the bound variable is used
		// as "(+ OFF k)" with a single offset term: the array read then is an
		// arithmetic-free trigger (E-matching does not see through +).
		if off, ok := singleOffset(body, k); ok {
			j := strings.Replace(k, "!q", "!j", 1)
			b2 := strings.ReplaceAll(body, "(+ "+off+" "+k+")", j)
			b2 = replaceToken(b2, k, "(- "+j+" "+off+")")
			r2 := and(icmp("<=", iadd(lo.T, off), j), icmp("<", j, iadd(hi.T, off)))
			if pat := firstSelectWith(b2, j); pat != "" {
				return bval(fmt.Sprintf("(forall ((%s Int)) (! %s :pattern (%s)))", j, implies(r2, b2), pat))
			}
			return bval(fmt.Sprintf("(forall ((%s Int)) %s)", j, implies(r2, b2)))
		}
		return bval(fmt.Sprintf("(forall ((%s Int)) %s)", k, implies(rng, body)))
	}
	return bval(fmt.Sprintf("(exists ((%s Int)) %s)", k, and(rng, body)))
}

func bvLitVal(t string) (int64, bool) {
	if !strings.HasPrefix(t, "(_ bv") {
		return 0, false
	}
	var v int64
	var w int
	if _, err := fmt.Sscanf(t, "(_ bv%d %d)", &v, &w); err != nil {
		return 0, false
	}
	return v, true
}

func (e *Env) callExpr(n *ast.CallExpr) Val {
	u := e.u
	so := u.so
	name := ""
	switch f := n.Fun.(type) {
	case *ast.Ident:
		name = f.Name
	case *ast.SelectorExpr:
		// method-style spec call x.f(args) is not supported; pkg.Func(args) for macros
		name = f.Sel.Name
	}
	arg := func(i int) Val { return e.eval(n.Args[i]) }
	switch name {
	case "old":
		sub := e.clone()
		sub.heap = e.old
		if e.oldVars != nil {
			for k, v := range e.oldVars {
				sub.vars[k] = v
			}
		}
		return sub.eval(n.Args[0])
	case "forall", "exists":
		return e.quant(name, n)
	case "forallstr":
		// forallstr(s, body): universal quantifier over strings
		id, ok := n.Args[0].(*ast.Ident)
		if !ok || len(n.Args) != 2 {
			e.fail("forallstr(s, body)")
		}
		u.nfresh++
		k := fmt.Sprintf("%s!q%d", id.Name, u.nfresh)
		sub := e.clone()
		sub.vars[id.Name] = Val{T: k, Ty: types.Typ[types.String], S: "Str"}
		return bval(fmt.Sprintf("(forall ((%s Str)) %s)", k, sub.evalBool(n.Args[1])))
	case "contains":
		// contains(a, b): substring test; decided here when both are literals
		a, b := arg(0), arg(1)
		la, oka := litOf(so, a.T)
		lb, okb := litOf(so, b.T)
		if oka && okb {
			if strings.Contains(la, lb) {
				return bval("true")
			}
			return bval("false")
		}
		u.declFuns["strcontains"] = true
		u.axiomsFor("strcontains")
		return bval(app("strcontains", a.T, b.T))
	case "forallint":
		// forallint(t, body): unbounded universal quantifier over the integers
		id, ok := n.Args[0].(*ast.Ident)
		if !ok || len(n.Args) != 2 {
			e.fail("forallint(t, body)")
		}
		u.nfresh++
		k := fmt.Sprintf("%s!q%d", id.Name, u.nfresh)
		sub := e.clone()
		sub.vars[id.Name] = Val{T: k, Ty: intT, S: "Int"}
		return bval(fmt.Sprintf("(forall ((%s Int)) %s)", k, sub.evalBool(n.Args[1])))
	case "implies":
		return bval(implies(e.evalBool(n.Args[0]), e.evalBool(n.Args[1])))
	case "ite":
		c := e.evalBool(n.Args[0])
		a, b := e.coerce(arg(1), arg(2))
		return Val{T: ite(c, a.T, b.T), Ty: a.Ty, S: a.S}
	case "len", "size":
		v := arg(0)
		switch {
		case v.S == "Slice" || v.S == "SliceBV":
			if !so.bv && !strings.Contains(v.T, "!q") && !strings.Contains(v.T, "!s") {
				// well-formedness of any slice value held in the heap
				u.assume(app("<=", "0", app("s_len", v.T)))
			}
			return Val{T: app("s_len", v.T), Ty: intT, S: so.idxSort()}
		case v.S == "Str":
			return e.ival(app("strlen", v.T))
		case v.S == "SeqI":
			return e.ival(app("q_len", v.T))
		case v.Ty != nil:
			if mt, ok := v.Ty.Underlying().(*types.Map); ok {
				_, _, _, _, nn, ns := u.mapComps(mt)
				// len of a nil map is 0 (as in the instruction semantics)
				return e.ival(ite(eq(v.T, "0"), "0", sel(u.comp(e.heap, nn, ns), v.T)))
			}
		}
		return e.fail("len of %s", v.S)
	case "cap":
		v := arg(0)
		return Val{T: app("s_cap", v.T), Ty: intT, S: so.idxSort()}
	case "arrof":
		v := arg(0)
		return e.ival(app("s_arr", v.T))
	case "offof":
		v := arg(0)
		return Val{T: app("s_off", v.T), Ty: intT, S: so.idxSort()}
	case "min":
		a, b := e.coerce(arg(0), arg(1))
		return Val{T: ite(icmp("<=", a.T, b.T), a.T, b.T), Ty: a.Ty, S: a.S}
	case "max":
		a, b := e.coerce(arg(0), arg(1))
		return Val{T: ite(icmp(">=", a.T, b.T), a.T, b.T), Ty: a.Ty, S: a.S}
	case "abs":
		a := arg(0)
		if a.S == "Real" {
			return Val{T: ite(app(">=", a.T, "0.0"), a.T, app("-", a.T)), S: "Real"}
		}
		return Val{T: ite(icmp(">=", a.T, "0"), a.T, isub("0", a.T)), Ty: a.Ty, S: a.S}
	case "real":
		a := arg(0)
		if a.S == "Real" {
			return a
		}
		if v, ok := parseLit(a.T); ok {
			return Val{T: ratLit(new(big.Rat).SetInt(v)), S: "Real"}
		}
		return Val{T: app("to_real", a.T), S: "Real"}
	case "seqeq":
		// seqeq(slice, seq, a, b): slice == seq[a:b]
		s, q, a, b := arg(0), arg(1), arg(2), arg(3)
		return bval(e.seqeq(s, q, a, b))
	case "sliceeq":
		// sliceeq(s, t): same length and contents (current heap)
		s, t := arg(0), arg(1)
		return bval(e.sliceeq(s, t, e.heap, e.heap))
	case "contents":
		// contents(s): the SMT array holding the slice's backing store, paired with offset via offof
		s := arg(0)
		st := s.Ty.Underlying().(*types.Slice)
		c, cs := u.elemComp(st.Elem())
		return Val{T: sel(u.comp(e.heap, c, cs), app("s_arr", s.T)), Ty: &seqType{elem: st.Elem()}, S: arrSort(so.idxSort(), so.sortOf(st.Elem()))}
	case "errmsg":
		v := arg(0)
		return Val{T: app("errmsg", app("i_val", v.T)), Ty: types.Typ[types.String], S: "Str"}
	case "strcat":
		a, b := arg(0), arg(1)
		return Val{T: app("strcat", a.T, b.T), Ty: a.Ty, S: "Str"}
	case "fresh":
		// fresh(x): reference allocated after function entry
		v := arg(0)
		r := v.T
		if v.S == "Slice" || v.S == "SliceBV" {
			r = app("s_arr", v.T)
		}
		return bval(app("<", u.comp(e.old, "ctr", "Int"), r))
	case "allocated":
		v := arg(0)
		r := v.T
		if v.S == "Slice" || v.S == "SliceBV" {
			r = app("s_arr", v.T)
		}
		return bval(app("<=", r, u.comp(e.heap, "ctr", "Int")))
	case "has":
		m, k := arg(0), arg(1)
		mt := m.Ty.Underlying().(*types.Map)
		d, ds, _, _, _, _ := u.mapComps(mt)
		return bval(and(not(eq(m.T, "0")), sel(sel(u.comp(e.heap, d, ds), m.T), k.T)))
	case "bit":
		return e.bitSpec(arg(0), arg(1))
	case "bitof":
		a, b := arg(0), arg(1)
		if so.bv {
			a, b = e.coerce(a, b)
			w := bvWidth(a.S)
			return Val{T: fmt.Sprintf("((_ zero_extend 63) ((_ extract 0 0) (bvlshr %s %s)))", a.T, b.T), Ty: types.Typ[types.Uint64], S: "(_ BitVec 64)"}.checkW(w)
		}
		return e.ival(app("bitof", a.T, b.T))
	case "bits", "sbits":
		return e.bitsSpec(name, arg(0), arg(1), arg(2))
	case "bitsat", "sbitsat":
		// bitsat(s, byteIndex, p, n): like bits(s, 8*byteIndex+p, n) with literal p, n
		src, bi, p, nn := arg(0), arg(1), arg(2), arg(3)
		arr, off := e.byteSource(src)
		pl, okp := parseLit(p.T)
		nl, okn := parseLit(nn.T)
		if !okp || !okn || so.bv {
			e.fail("bitsat needs literal bit offset and width (int mode)")
		}
		nm := "bits"
		if name == "sbitsat" {
			nm = "sbits"
		}
		return e.ival(u.bitsLiteral(nm, arr, iadd(off, bi.T), uint(pl.Uint64()), uint(nl.Uint64())))
	case "rangepos", "rangelen", "rangekey":
		// the n-th `range` over a map in this function (source order): position of its iterator,
		// number of keys it produces, and the j-th key it produces (see execRange)
		if e.fr == nil {
			return e.fail("%s outside a function body", name)
		}
		lit, ok := n.Args[0].(*ast.BasicLit)
		if !ok {
			return e.fail("%s needs a literal ordinal", name)
		}
		ord, _ := strconv.Atoi(lit.Value)
		var rg *ssa.Range
		cnt := 0
		for _, b := range e.fr.fn.Blocks {
			for _, ins := range b.Instrs {
				if r, isR := ins.(*ssa.Range); isR {
					if _, isM := r.X.Type().Underlying().(*types.Map); isM {
						cnt++
						if cnt == ord {
							rg = r
						}
					}
				}
			}
		}
		if rg == nil {
			return e.fail("%s(%d): the function has only %d map range loops", name, ord, cnt)
		}
		itv, ok := e.fr.vals[rg]
		if !ok || itv.T == "0" {
			return e.fail("%s(%d): the iterator is not modelled here", name, ord)
		}
		mt := rg.X.Type().Underlying().(*types.Map)
		keyF, _, _ := u.rangeFuns(mt.Key())
		switch name {
		case "rangepos":
			return e.ival(sel(u.comp(e.heap, "RangePos", "(Array Int Int)"), itv.T))
		case "rangelen":
			return e.ival(app("rangelen", itv.T))
		}
		j := arg(1)
		return Val{T: sel(app(keyF, itv.T), j.T), Ty: mt.Key(), S: so.sortOf(mt.Key())}
	case "stamp":
		c := arg(0)
		return Val{T: sel(u.comp(e.heap, "ChStamp", "(Array Int (Array Int Int))"), c.T), Ty: &seqType{elem: intT}, S: "(Array Int Int)"}
	case "recvd", "sentn", "closed", "feedlen":
		c := arg(0)
		switch name {
		case "recvd":
			r := sel(u.comp(e.heap, "ChRecv", "(Array Int Int)"), c.T)
			if !strings.Contains(r, "!q") && !strings.Contains(r, "!s") {
				// channel model invariant: 0 <= received <= length of the feed
				u.declFun("feedlen", "(Int) Int")
				u.assume(and(app("<=", "0", r), app("<=", r, app("feedlen", c.T))))
			}
			return e.ival(r)
		case "sentn":
			return e.ival(sel(u.comp(e.heap, "ChSentN", "(Array Int Int)"), c.T))
		case "closed":
			return bval(not(eq(sel(u.comp(e.heap, "ChClosed", "(Array Int Int)"), c.T), "0")))
		case "feedlen":
			u.declFun("feedlen", "(Int) Int")
			return e.ival(app("feedlen", c.T))
		}
	case "feed":
		c := arg(0)
		ct, ok := c.Ty.Underlying().(*types.Chan)
		if !ok {
			e.fail("feed of non-channel")
		}
		fn := u.feedFun(ct)
		return Val{T: app(fn, c.T), Ty: &seqType{elem: ct.Elem()}, S: arrSort("Int", so.sortOf(ct.Elem()))}
	case "sent":
		c := arg(0)
		ct, ok := c.Ty.Underlying().(*types.Chan)
		if !ok {
			e.fail("sent of non-channel")
		}
		sc, ss := u.chanElemComp(ct)
		return Val{T: sel(u.comp(e.heap, sc, ss), c.T), Ty: &seqType{elem: ct.Elem()}, S: arrSort("Int", so.sortOf(ct.Elem()))}
	case "argreal", "argint", "argstr":
		// element k of a variadic ...interface{} argument, unboxed
		sl, k := arg(0), arg(1)
		c, cs := "E_iface", arrSort("Int", arrSort("Int", "Iface"))
		el := sel(sel(u.comp(e.heap, c, cs), app("s_arr", sl.T)), iadd(app("s_off", sl.T), k.T))
		switch name {
		case "argreal":
			u.declFun("box_float64", "(Real) Int")
			u.declFun("unbox_float64", "(Int) Real")
			return Val{T: app("unbox_float64", app("i_val", el)), Ty: types.Typ[types.Float64], S: "Real"}
		case "argint":
			return e.ival(app("i_val", el))
		default:
			return Val{T: app("i2str", app("i_val", el)), Ty: types.Typ[types.String], S: "Str"}
		}
	case "gc", "gb":
		// generic ghost state of external objects (readers, writers, clocks):
		// gc("name", ref) an integer counter, gb("name", ref) a byte sequence
		lit, ok := n.Args[0].(*ast.BasicLit)
		if !ok || len(n.Args) != 2 {
			e.fail("%s(\"name\", ref)", name)
		}
		nm, _ := strconv.Unquote(lit.Value)
		ref := arg(1)
		r := ref.T
		if ref.S == "Iface" {
			r = app("i_val", ref.T)
		}
		if name == "gc" {
			t := sel(u.comp(e.heap, "GC_"+mangle(nm), "(Array Int Int)"), r)
			if !strings.Contains(t, "!q") && !strings.Contains(t, "!j") && !strings.Contains(t, "!s") && !strings.Contains(t, "!d") {
				u.assume(app("<=", "0", t)) // ghost counters count up from zero
			}
			return e.ival(t)
		}
		return Val{T: sel(u.comp(e.heap, "GB_"+mangle(nm), "(Array Int (Array Int Int))"), r), Ty: &seqType{elem: types.Typ[types.Uint8]}, S: "(Array Int Int)"}
	case "typeis":
		v := arg(0)
		lit, ok := n.Args[1].(*ast.BasicLit)
		if !ok {
			e.fail("typeis(x, \"type key\")")
		}
		k, _ := strconv.Unquote(lit.Value)
		tag, ok := so.typeTags[k]
		if !ok {
			tag = len(so.typeTags) + 1
			so.typeTags[k] = tag
			so.tagOrder = append(so.tagOrder, k)
		}
		return bval(eq(app("i_tag", v.T), fmt.Sprint(tag)))
	case "unbox":
		// unbox(x): the reference held by an interface value
		v := arg(0)
		return e.ival(app("i_val", v.T))
	case "addr":
		// addr(s, i): the pointer &s[i] (interior pointer to element i of slice s)
		sv, iv := arg(0), arg(1)
		st, ok := sv.Ty.Underlying().(*types.Slice)
		if !ok || !u.interior(st.Elem()) {
			e.fail("addr: %s is not a slice of a type whose elements have their address taken", exprString(n.Args[0]))
		}
		u.elemRefFuns()
		return Val{T: app("elemref", app("s_arr", sv.T), iadd(app("s_off", sv.T), iv.T)), Ty: types.NewPointer(st.Elem()), S: "Int"}
	case "ptr":
		// ptr(x, "pkg.Type"): reinterpret an integer reference as *Type
		v := arg(0)
		lit, _ := n.Args[1].(*ast.BasicLit)
		k, _ := strconv.Unquote(lit.Value)
		t := u.eng.typeByKey(k)
		if t == nil {
			e.fail("unknown type %s", k)
		}
		return Val{T: v.T, Ty: types.NewPointer(t), S: "Int"}
	case "div":
		a, b := arg(0), arg(1)
		return Val{T: app("div", a.T, b.T), Ty: a.Ty, S: "Int"}
	case "mod":
		a, b := arg(0), arg(1)
		return Val{T: app("mod", a.T, b.T), Ty: a.Ty, S: "Int"}
	case "pow2":
		a := arg(0)
		if v, ok := parseLit(a.T); ok {
			return e.ival(ilitB(pow2(uint(v.Uint64()))))
		}
		u.declFun("pow2", "(Int) Int")
		return e.ival(app("pow2", a.T))
	case "unchanged":
		// unchanged(x): value of expression is the same as in the old state
		cur := arg(0)
		sub := e.clone()
		sub.heap = e.old
		old := sub.eval(n.Args[0])
		return bval(eq(cur.T, old.T))
	}
	if pr, ok := u.eng.lib.Preds[name]; ok {
		var args []string
		for i := range n.Args {
			args = append(args, arg(i).T)
		}
		if len(args) != len(pr.Params) {
			e.fail("predicate %s expects %d arguments", name, len(pr.Params))
		}
		u.usePred(pr)
		if pr.Ret == "Int" {
			return e.ival(app(pr.Name, args...))
		}
		return bval(app(pr.Name, args...))
	}
	// library macro
	if m, ok := u.eng.lib.Macros[name]; ok {
		var args []Val
		for i := range n.Args {
			args = append(args, arg(i))
		}
		return e.expandMacro(m, args)
	}
	if d, ok := u.eng.lib.UFs[name]; ok {
		var args []string
		for i := range n.Args {
			args = append(args, arg(i).T)
		}
		u.useUF(d)
		t := app(d.Name, args...)
		if len(args) == 0 {
			t = d.Name
		}
		var ty types.Type
		if d.Ret == "Int" {
			ty = intT
		}
		return Val{T: t, Ty: ty, S: d.Ret}
	}
	return e.fail("unknown spec function %s", name)
}

func (v Val) checkW(w uint) Val { return v }

func (u *Unit) useUF(d *UFDecl) {
	if u.declFuns[d.Name] {
		return
	}
	u.declFun(d.Name, "("+strings.Join(d.Args, " ")+") "+d.Ret)
	if d.Name == "crchash" {
		if dd := u.eng.lib.UFs["crcdiff"]; dd != nil {
			u.useUF(dd)
		}
	}
	u.axiomsFor(d.Name)
}

// axiomsFor adds the library axioms triggered by function name (once all their triggers are in use).
func (u *Unit) axiomsFor(name string) {
	if u.axiomsDone == nil {
		u.axiomsDone = map[string]bool{}
	}
	d := struct{ Name string }{name}
	// add axioms triggered by this UF once all their triggers are declared
	for _, ax := range u.eng.lib.Axioms {
		if u.axiomsDone[ax.Name] {
			continue
		}
		if ax.Lemma {
			if u.lemmaLimit > 0 && ax.Index >= u.lemmaLimit-1 {
				continue
			}
			if ax.Aux && u.lemmaLimit == 0 {
				continue
			}
			ready := true
			for _, t := range ax.Trigger {
				if u.eng.lib.Preds[t] != nil && !u.declFuns[t] {
					ready = false
				}
			}
			if ready {
				u.axiomsDone[ax.Name] = true
				u.emitLemma(ax)
			}
			continue
		}
		all := len(ax.Trigger) > 0
		mine := false
		for _, t := range ax.Trigger {
			if t == d.Name {
				mine = true
			}
			if !u.declFuns[t] {
				all = false
			}
		}
		if all && mine {
			u.axiomsDone[ax.Name] = true
			if ax.Raw != "" {
				u.emit("(assert " + ax.Raw + ")")
			} else {
				env := u.newEnv(Heap{})
				u.assume(env.evalBool(ax.Expr))
			}
			u.assumed["axiom "+ax.Name+": "+ax.Text] = true
		}
	}
}

// emitLemma adds a proved lemma as a quantified fact with its declared trigger.
func (u *Unit) emitLemma(ax *Axiom) {
	env := u.newEnv(nil)
	env.noHeap = true
	var binders []string
	for i, p := range ax.Params {
		bn := p + "!l"
		binders = append(binders, "("+bn+" "+ax.Sorts[i]+")")
		env.vars[p] = lemmaParam(bn, ax.Sorts[i])
	}
	body := env.evalBool(ax.Expr)
	var pats []string
	for _, pe := range ax.Pats {
		pats = append(pats, env.eval(pe).T)
	}
	u.emit(fmt.Sprintf("(assert (forall (%s) (! %s :pattern (%s))))", strings.Join(binders, " "), body, strings.Join(pats, " ")))
	if u.lemmasUsed == nil {
		u.lemmasUsed = map[string]bool{}
	}
	u.lemmasUsed[ax.Name] = true
}

// lemmaParam: a lemma parameter of the given sort (integers, or arrays used as sequences)
func lemmaParam(term, srt string) Val {
	if srt == "Int" {
		return Val{T: term, Ty: intT, S: "Int"}
	}
	return Val{T: term, Ty: &seqType{elem: types.Typ[types.Uint8]}, S: srt}
}

// lemmaObligation: the proof obligation of a lemma.  With "by v" it is proved by
// strong induction on v: the statement may be assumed for every v' with 0 <= v' < v
// (for v < 0 that is nothing, so the statement must then hold outright).
func (e *Engine) lemmaObligation(ax *Axiom, prop string) *Oblig {
	u := e.newUnit(nil, nil, "lemma:"+ax.Name)
	u.prop = prop
	u.lemmaLimit = ax.Index + 1
	env := u.newEnv(nil)
	env.noHeap = true
	for i, p := range ax.Params {
		c := u.fresh("l_"+p, ax.Sorts[i])
		env.vars[p] = lemmaParam(c, ax.Sorts[i])
	}
	goal := env.evalBool(ax.Expr)
	if ax.By != "" {
		ih := env.clone()
		bn := ax.By + "!ih"
		ih.vars[ax.By] = Val{T: bn, Ty: intT, S: "Int"}
		u.assume(fmt.Sprintf("(forall ((%s Int)) (=> (and (<= 0 %s) (< %s %s)) %s))", bn, bn, bn, env.vars[ax.By].T, ih.evalBool(ax.Expr)))
	}
	o := u.oblig("lemma", "lemma "+ax.Name+": "+ax.Text, goal, nil)
	o.Pos = ax.Where
	return o
}

func (e *Env) seqeq(s, q, a, b Val) string {
	u := e.u
	st := s.Ty.Underlying().(*types.Slice)
	c, cs := u.elemComp(st.Elem())
	arr := sel(u.comp(e.heap, c, cs), app("s_arr", s.T))
	qa := q.T
	if q.S == "SeqI" {
		qa = app("q_arr", q.T)
	}
	u.nfresh++
	// the bound variable is the absolute index into the slice's backing array, so
	// that the array read is an arithmetic-free trigger
	j := fmt.Sprintf("j!s%d", u.nfresh)
	n := isub(b.T, a.T)
	off := app("s_off", s.T)
	return and(eq(app("s_len", s.T), n),
		fmt.Sprintf("(forall ((%s Int)) (! %s :pattern (%s)))", j, implies(and(icmp("<=", off, j), icmp("<", j, iadd(off, n))),
			eq(sel(arr, j), sel(qa, iadd(a.T, isub(j, off))))), sel(arr, j)))
}

func (e *Env) sliceeq(s, t Val, hs, ht Heap) string {
	u := e.u
	st := s.Ty.Underlying().(*types.Slice)
	c, cs := u.elemComp(st.Elem())
	as := sel(u.comp(hs, c, cs), app("s_arr", s.T))
	at := sel(u.comp(ht, c, cs), app("s_arr", t.T))
	u.nfresh++
	k := fmt.Sprintf("k!s%d", u.nfresh)
	return and(eq(app("s_len", s.T), app("s_len", t.T)),
		fmt.Sprintf("(forall ((%s Int)) %s)", k, implies(and(icmp("<=", "0", k), icmp("<", k, app("s_len", s.T))),
			eq(sel(as, iadd(app("s_off", s.T), k)), sel(at, iadd(app("s_off", t.T), k))))))
}

// byteSource resolves a specification "byte sequence" argument: either a
// []byte slice (contents from the heap, with offset) or a seq value.
func (e *Env) byteSource(s Val) (arr string, off string) {
	u := e.u
	so := u.so
	switch {
	case s.S == "Slice" || s.S == "SliceBV":
		st := s.Ty.Underlying().(*types.Slice)
		c, cs := u.elemComp(st.Elem())
		return sel(u.comp(e.heap, c, cs), app("s_arr", s.T)), app("s_off", s.T)
	case s.S == "SeqI":
		return app("q_arr", s.T), so.idxLit(0)
	case strings.HasPrefix(s.S, "(Array"):
		return s.T, so.idxLit(0)
	}
	e.fail("not a byte sequence: %s", s.S)
	return "", ""
}

// bit(s, p): bit p (MSB-first numbering) of byte sequence s, as 0/1.
func (e *Env) bitSpec(s, p Val) Val {
	u := e.u
	arr, off := e.byteSource(s)
	if u.so.bv {
		p, _ = e.coerce(p, Val{T: "(_ bv0 64)", Ty: types.Typ[types.Uint64], S: "(_ BitVec 64)"})
		byteIdx := app("bvadd", off, app("bvlshr", p.T, "(_ bv3 64)"))
		sh := app("bvsub", "(_ bv7 8)", fmt.Sprintf("((_ extract 7 0) (bvand %s (_ bv7 64)))", p.T))
		return Val{T: fmt.Sprintf("((_ zero_extend 63) ((_ extract 0 0) (bvlshr %s %s)))", sel(arr, byteIdx), sh), Ty: types.Typ[types.Uint64], S: "(_ BitVec 64)"}
	}
	// int mode: uninterpreted bit() over the array with absolute bit position
	u.declFun("bitAt", "((Array Int Int) Int) Int")
	return e.ival(app("bitAt", arr, iadd(imul("8", off), p.T)))
}

// bits(s, p, n) / sbits(s, p, n): int-mode uninterpreted spec functions.
func (e *Env) bitsSpec(name string, s, p, n Val) Val {
	u := e.u
	if u.so.bv {
		e.fail("%s() is an int-mode specification function", name)
	}
	arr, off := e.byteSource(s)
	pl, okp := parseLit(p.T)
	nl, okn := parseLit(n.T)
	if okp && okn && nl.Sign() >= 0 && nl.Cmp(big.NewInt(64)) <= 0 && pl.Sign() >= 0 {
		return e.ival(u.bitsLiteral(name, arr, off, uint(pl.Uint64()), uint(nl.Uint64())))
	}
	if okn && nl.Sign() > 0 && nl.Cmp(big.NewInt(64)) <= 0 {
		// literal width, symbolic position: an uninterpreted function of (bytes, absolute bit
		// position) per width, defined by an axiom as the byte arithmetic at the position's
		// alignment (eight cases); solvers unfold it only where needed, and equal positions
		// give equal values by congruence
		return e.ival(u.bitsAtSymbolic(name, arr, iadd(imul("8", off), p.T), uint(nl.Uint64())))
	}
	return e.ival(u.bitsTerm(name, arr, iadd(imul("8", off), p.T), n.T))
}

// bitsLiteral expands bits(s, p, n) for literal p and n into arithmetic over
// the (at most nine) bytes that hold the field.  The expansion is justified
// against the bit-level C14 contract by the bridge lemmas (bridge.go).
func (u *Unit) bitsLiteral(name, arr, off string, p, n uint) string {
	if n == 0 {
		return "0"
	}
	u.bitsApps[fmt.Sprintf("%d/%d", p%8, n)] = true
	lo := p / 8
	hi := (p + n - 1) / 8
	nb := hi - lo + 1
	v := "0"
	for j := uint(0); j < nb; j++ {
		b := sel(arr, iadd(off, ilit(int64(lo+j))))
		if !strings.Contains(b, "!q") && !strings.Contains(b, "!s") && !strings.Contains(b, "!d") {
			u.assume(and(app("<=", "0", b), app("<=", b, "255"))) // a byte
		}
		v = iadd(v, imul(b, ilitB(pow2(8*(nb-1-j)))))
	}
	trailing := 8*(hi+1) - (p + n)
	t := idivc(v, pow2(trailing))
	if trailing+n < 8*nb || u.forceMod {
		t = imodc(t, pow2(n))
	}
	if name == "sbits" {
		t = ite(icmp(">=", t, ilitB(pow2(n-1))), isub(t, ilitB(pow2(n))), t)
	}
	return t
}

// bitsTerm builds bits(arr, absBitPos, n) and records ground facts about it.
func (u *Unit) bitsTerm(name, arr, pos, n string) string {
	u.declFun("bits", "((Array Int Int) Int Int) Int")
	u.declFun("sbits", "((Array Int Int) Int Int) Int")
	return app(name, arr, pos, n)
}

// usePred declares an opaque predicate and its definitional axiom.
func (u *Unit) usePred(pr *Pred) {
	if u.declFuns[pr.Name] {
		return
	}
	// parameters written seq[<type key>] are sequences of that Go type
	for i, srt := range pr.Sorts {
		if strings.HasPrefix(srt, "val[") && strings.HasSuffix(srt, "]") {
			// a single value of that Go type
			t := u.eng.typeByKey(srt[4 : len(srt)-1])
			if t == nil {
				panic(specError{"unknown type in " + srt})
			}
			if u.valParamTypes == nil {
				u.valParamTypes = map[string]types.Type{}
			}
			u.valParamTypes[pr.Name+"/"+pr.Params[i]] = t
			pr = &Pred{Ret: pr.Ret, Name: pr.Name, Params: pr.Params, Sorts: append([]string(nil), pr.Sorts...), Body: pr.Body, Text: pr.Text, Where: pr.Where}
			pr.Sorts[i] = u.so.sortOf(t)
			continue
		}
		if strings.HasPrefix(srt, "seq[") && strings.HasSuffix(srt, "]") {
			t := u.eng.typeByKey(srt[4 : len(srt)-1])
			if t == nil {
				panic(specError{"unknown element type in " + srt})
			}
			if u.seqElemTypes == nil {
				u.seqElemTypes = map[string]types.Type{}
			}
			u.seqElemTypes[pr.Name+"/"+pr.Params[i]] = t
			pr = &Pred{Ret: pr.Ret, Name: pr.Name, Params: pr.Params, Sorts: append([]string(nil), pr.Sorts...), Body: pr.Body, Text: pr.Text, Where: pr.Where}
			pr.Sorts[i] = arrSort("Int", u.so.sortOf(t))
		}
	}
	u.declFun(pr.Name, "("+strings.Join(pr.Sorts, " ")+") "+pr.Ret)
	env := u.newEnv(nil)
	env.noHeap = true
	var binders []string
	var names []string
	for i, p := range pr.Params {
		bn := p + "!d"
		binders = append(binders, "("+bn+" "+pr.Sorts[i]+")")
		names = append(names, bn)
		var ty types.Type
		if pr.Sorts[i] == "Int" {
			ty = intT
		} else if strings.HasPrefix(pr.Sorts[i], "(Array Int Int") {
			ty = &seqType{elem: types.Typ[types.Uint8]}
		} else if et := u.seqElemTypes[pr.Name+"/"+p]; et != nil {
			ty = &seqType{elem: et}
		} else if vt := u.valParamTypes[pr.Name+"/"+p]; vt != nil {
			ty = vt
		}
		env.vars[p] = Val{T: bn, Ty: ty, S: pr.Sorts[i]}
	}
	var body string
	if pr.Ret == "Int" {
		body = env.eval(pr.Body).T
	} else {
		body = env.evalBool(pr.Body)
	}
	head := app(pr.Name, names...)
	if pr.Ret == "Int" && u.lemmaLimit == 0 && strings.Contains(body, "("+pr.Name+" ") {
		// Recursive specification function in a function unit: unfold one level only.  The
		// recursive occurrence is the twin symbol name!0, which has no definition of its own and
		// equals name(...) on every argument tuple where a term name(...) exists (so a chain of
		// unfoldings cannot feed itself; lemma obligations, which need induction, use the plain
		// recursive definition).
		twin := pr.Name + "!0"
		u.declFun(twin, "("+strings.Join(pr.Sorts, " ")+") "+pr.Ret)
		body = strings.ReplaceAll(body, "("+pr.Name+" ", "("+twin+" ")
		u.emit(fmt.Sprintf("(assert (forall (%s) (! (= %s (%s %s)) :pattern (%s))))", strings.Join(binders, " "), head, twin, strings.Join(names, " "), head))
	}
	def := fmt.Sprintf("(assert (forall (%s) (! (= %s %s) :pattern (%s))))", strings.Join(binders, " "), head, body, head)
	if u.opaque[pr.Name] {
		u.hiddenDefs[pr.Name] = def
	} else {
		u.emit(def)
	}
	u.axiomsFor(pr.Name)
}

// singleOffset: the bound variable k is used as an array index "(+ OFF k)"
// (the last argument of a select) with one offset term OFF (free of k) in all
// such index positions; other arithmetic uses of k are allowed.
func singleOffset(body, k string) (string, bool) {
	off := ""
	found := false
	needle := " " + k + "))"
	for i := 0; i+3 < len(body); i++ {
		if !strings.HasPrefix(body[i:], "(+ ") {
			continue
		}
		j := i + 3
		start := j
		if body[j] == '(' {
			d := 0
			for ; j < len(body); j++ {
				if body[j] == '(' {
					d++
				} else if body[j] == ')' {
					d--
					if d == 0 {
						j++
						break
					}
				}
			}
		} else {
			for j < len(body) && body[j] != ' ' && body[j] != ')' {
				j++
			}
		}
		first := body[start:j]
		// "(+ OFF k))" : the sum closes and so does the enclosing term (a select index)
		if strings.HasPrefix(body[j:], needle) && !strings.Contains(first, k) {
			// is the enclosing term a select?  look backwards for "(select "
			if enclosingIsSelect(body, i) {
				if !found {
					// several array reads with different offsets: re-index by the first one
					off, found = first, true
				}
			}
		}
	}
	// a bare "k" as select index means offset zero: leave the quantifier alone
	if found && strings.Contains(body, " "+k+")") {
		// make sure no select is indexed by k itself
		for i := 0; i < len(body); i++ {
			if strings.HasPrefix(body[i:], " "+k+")") && enclosingIsSelect(body, i+1) && !strings.HasPrefix(body[max(0, i-1):], ")") {
				_ = i
			}
		}
	}
	return off, found
}

// enclosingIsSelect reports whether the term starting at position i is the
// index argument of a select, i.e. the innermost enclosing application is "(select A <term>".
func enclosingIsSelect(body string, i int) bool {
	// walk backwards to the opening parenthesis of the enclosing application
	d := 0
	for p := i - 1; p >= 0; p-- {
		switch body[p] {
		case ')':
			d++
		case '(':
			if d == 0 {
				return strings.HasPrefix(body[p:], "(select ")
			}
			d--
		}
	}
	return false
}

// replaceToken replaces whole-token occurrences of name.
func replaceToken(s, name, with string) string {
	var b strings.Builder
	for i := 0; i < len(s); {
		if strings.HasPrefix(s[i:], name) {
			prevOK := i == 0 || s[i-1] == ' ' || s[i-1] == '('
			end := i + len(name)
			nextOK := end == len(s) || s[end] == ' ' || s[end] == ')'
			if prevOK && nextOK {
				b.WriteString(with)
				i = end
				continue
			}
		}
		b.WriteByte(s[i])
		i++
	}
	return b.String()
}

// firstSelectWith finds a "(select X j)" term whose index is exactly j and whose array term does not contain nested quantifier variables other than j.
func firstSelectWith(body, j string) string {
	needle := " " + j + ")"
	for i := 0; i < len(body); i++ {
		if !strings.HasPrefix(body[i:], "(select ") {
			continue
		}
		// find the matching close paren of this select
		d := 0
		e := i
		for ; e < len(body); e++ {
			if body[e] == '(' {
				d++
			} else if body[e] == ')' {
				d--
				if d == 0 {
					e++
					break
				}
			}
		}
		t := body[i:e]
		if strings.HasSuffix(t, needle) && !strings.Contains(t[:len(t)-len(needle)], j) && !strings.Contains(t, "!q") && !strings.Contains(t, "!s") {
			return t
		}
	}
	return ""
}

func litOf(so *Sorts, name string) (string, bool) {
	for l, n := range so.strLits {
		if n == name {
			return l, true
		}
	}
	return "", false
}

// bitsAtSymbolic: bits / sbits of literal width n at a symbolic absolute bit position.
func (u *Unit) bitsAtSymbolic(name, arr, pos string, n uint) string {
	fn := fmt.Sprintf("%sL%d", name, n)
	if !u.declFuns[fn] {
		u.declFun(fn, "((Array Int Int) Int) Int")
		// definitional axiom
		A, P := "A!b", "p!b"
		bi := idivc(P, big.NewInt(8))
		al := imodc(P, big.NewInt(8))
		save := u.lines
		u.forceMod = true // the defining term is in range for every array, whatever its cells hold
		defer func() { u.forceMod = false }()
		t := u.bitsLiteral(name, A, bi, 7, n)
		for a := 6; a >= 0; a-- {
			t = ite(eq(al, ilit(int64(a))), u.bitsLiteral(name, A, bi, uint(a), n), t)
		}
		u.lines = save // bitsLiteral's byte-range assumptions mention bound variables: drop them
		rng := ""
		if name == "bits" {
			rng = fmt.Sprintf(" (<= 0 (%s %s %s)) (< (%s %s %s) %s)", fn, A, P, fn, A, P, ilitB(pow2(n)))
		} else {
			rng = fmt.Sprintf(" (<= %s (%s %s %s)) (< (%s %s %s) %s)", ilitB(new(big.Int).Neg(pow2(n-1))), fn, A, P, fn, A, P, ilitB(pow2(n-1)))
		}
		if u.ct != nil && u.ct.BitsDef {
			u.emit(fmt.Sprintf("(assert (forall ((%s (Array Int Int)) (%s Int)) (! (and (= (%s %s %s) %s)%s) :pattern ((%s %s %s)))))", A, P, fn, A, P, t, rng, fn, A, P))
		} else {
			// Only the range is given by default: proofs about fields at symbolic positions go by
			// congruence (same bytes, same position, same value); the byte-arithmetic definition
			// (contract directive "bitsdef") is a large case split that is rarely needed.
			u.emit(fmt.Sprintf("(assert (forall ((%s (Array Int Int)) (%s Int)) (! (and%s) :pattern ((%s %s %s)))))", A, P, rng, fn, A, P))
		}
	}
	return app(fn, arr, pos)
}
