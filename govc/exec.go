package main

// Symbolic execution of go/ssa functions into SMT-LIB.
//
// Control flow is encoded as a DAG (loop back edges are cut at loop headers
// using the loop's invariant): every basic block gets a reachability
// predicate, phi nodes and heap components are merged with ite at joins.

import (
	"fmt"
	"go/constant"
	"go/token"
	"go/types"
	"math/big"
	"sort"
	"strings"

	"golang.org/x/tools/go/ssa"
)

type LVKind int

const (
	lvPtr LVKind = iota
	lvField
	lvElem
	lvGlobal
)

// LV is a symbolic l-value (what a pointer-typed SSA value denotes).
type LV struct {
	kind  LVKind
	ref   string     // lvPtr: object reference
	ty    types.Type // type of the denoted location
	base  *LV        // lvField
	field int
	arr   string // lvElem: array ref
	idx   string // lvElem: absolute index
	glob  *ssa.Global
	fresh bool // known non-nil
}

type retInfo struct {
	reach string
	vals  []Val
	heap  Heap
}

type loopInfo struct {
	header  int
	ordinal int
	body    map[int]bool
	latches []int
	spec    *LoopSpec
	mods    map[string]bool
	fieldMods map[string][]fieldMod // comps modified only through p.f stores with loop-invariant p
	m0      string // measure at head
	headHeap Heap
	lets    map[string]Val
}

type Frame struct {
	u        *Unit
	fn       *ssa.Function
	ct       *Contract
	vals     map[ssa.Value]Val
	lvs      map[ssa.Value]*LV
	tuples   map[ssa.Value][]Val
	reach    map[int]string
	heapOut  map[int]Heap
	edgeCond map[[2]int]string
	entryHeap Heap
	entryReach string
	depth    int
	rets     []retInfo
	loops    map[int]*loopInfo // by header index
	names    map[string]Val    // params, lets, ghosts
	defers   []*ssa.Defer
	parent   *Frame
	top      bool
	curBlock int
	frameAllowed func(comp string, r string, h Heap) string // for implicit frame invariants; nil if none
	frameTargets []modTarget
	atCallSeen map[*AtCall]bool
}

func (u *Unit) newFrame(fn *ssa.Function, ct *Contract, parent *Frame) *Frame {
	fr := &Frame{u: u, fn: fn, ct: ct, vals: map[ssa.Value]Val{}, lvs: map[ssa.Value]*LV{}, tuples: map[ssa.Value][]Val{},
		reach: map[int]string{}, heapOut: map[int]Heap{}, edgeCond: map[[2]int]string{}, loops: map[int]*loopInfo{},
		names: map[string]Val{}, parent: parent, atCallSeen: map[*AtCall]bool{}}
	if parent != nil {
		fr.depth = parent.depth + 1
	}
	return fr
}

// ---------------------------------------------------------------- CFG helpers

func isBackEdge(from, to *ssa.BasicBlock) bool { return to.Dominates(from) }

func rpo(fn *ssa.Function) []*ssa.BasicBlock {
	seen := map[int]bool{}
	var post []*ssa.BasicBlock
	var dfs func(b *ssa.BasicBlock)
	dfs = func(b *ssa.BasicBlock) {
		seen[b.Index] = true
		for _, s := range b.Succs {
			if isBackEdge(b, s) || seen[s.Index] {
				continue
			}
			dfs(s)
		}
		post = append(post, b)
	}
	dfs(fn.Blocks[0])
	for i, j := 0, len(post)-1; i < j; i, j = i+1, j-1 {
		post[i], post[j] = post[j], post[i]
	}
	// ensure every block appears after all its non-back-edge predecessors:
	// DFS post-order reversal guarantees this for reducible graphs.
	return post
}

func (fr *Frame) findLoops() {
	fn := fr.fn
	for _, b := range fn.Blocks {
		for _, s := range b.Succs {
			if isBackEdge(b, s) {
				li := fr.loops[s.Index]
				if li == nil {
					li = &loopInfo{header: s.Index, body: map[int]bool{s.Index: true}}
					fr.loops[s.Index] = li
				}
				li.latches = append(li.latches, b.Index)
				// natural loop: walk predecessors from latch to header
				stack := []*ssa.BasicBlock{b}
				for len(stack) > 0 {
					x := stack[len(stack)-1]
					stack = stack[:len(stack)-1]
					if li.body[x.Index] {
						continue
					}
					li.body[x.Index] = true
					for _, p := range x.Preds {
						stack = append(stack, p)
					}
				}
			}
		}
	}
	var hs []int
	for h := range fr.loops {
		hs = append(hs, h)
	}
	sort.Ints(hs)
	for i, h := range hs {
		li := fr.loops[h]
		li.ordinal = i + 1
		if fr.ct != nil {
			li.spec = fr.ct.Loops[li.ordinal]
		}
		li.mods = map[string]bool{}
		for bi := range li.body {
			fr.u.eng.blockMods(fn.Blocks[bi], li.mods, 0)
		}
		fr.refineFieldMods(li)
	}
}

// ---------------------------------------------------------------- values

func ratLit(r *big.Rat) string {
	num, den := r.Num(), r.Denom()
	neg := num.Sign() < 0
	n := new(big.Int).Abs(num)
	var s string
	if den.Cmp(big.NewInt(1)) == 0 {
		s = n.String() + ".0"
	} else {
		s = "(/ " + n.String() + ".0 " + den.String() + ".0)"
	}
	if neg {
		return "(- " + s + ")"
	}
	return s
}

func (fr *Frame) constVal(c *ssa.Const) Val {
	u := fr.u
	so := u.so
	t := c.Type()
	if c.Value == nil {
		return Val{T: so.zero(t), Ty: t, S: so.sortOf(t)}
	}
	if _, _, ok := intInfo(t); ok {
		var v *big.Int
		if iv, exact := constant.Int64Val(constant.ToInt(c.Value)); exact {
			v = big.NewInt(iv)
		} else if uv, exact := constant.Uint64Val(constant.ToInt(c.Value)); exact {
			v = new(big.Int).SetUint64(uv)
		} else {
			v, _ = new(big.Int).SetString(constant.ToInt(c.Value).ExactString(), 10)
		}
		return Val{T: so.intLit(t, v), Ty: t, S: so.intSort(t)}
	}
	switch c.Value.Kind() {
	case constant.Bool:
		if constant.BoolVal(c.Value) {
			return Val{T: "true", Ty: t, S: "Bool"}
		}
		return Val{T: "false", Ty: t, S: "Bool"}
	case constant.String:
		return Val{T: so.strLit(constant.StringVal(c.Value)), Ty: t, S: "Str"}
	case constant.Float, constant.Int:
		// float constant: exact rational of the nearest float64
		f, _ := constant.Float64Val(c.Value)
		r := new(big.Rat)
		r.SetFloat64(f)
		return Val{T: ratLit(r), Ty: t, S: "Real"}
	}
	panic("constVal: " + c.String())
}

func (fr *Frame) valOf(v ssa.Value) Val {
	switch x := v.(type) {
	case *ssa.Const:
		return fr.constVal(x)
	case *ssa.Function:
		return Val{T: "0", Ty: x.Type(), S: "Int"}
	case *ssa.Builtin:
		return Val{T: "0", Ty: x.Type(), S: "Int"}
	case *ssa.Global:
		// pointer to global as a value: not representable
		fr.u.unsupportedAt(fr.curReach(), "address of global "+x.Name()+" used as value")
		return Val{T: "0", Ty: x.Type(), S: "Int"}
	}
	if val, ok := fr.vals[v]; ok {
		return val
	}
	if lv, ok := fr.lvs[v]; ok {
		if lv.kind == lvElem && fr.u.interior(lv.ty) && !fr.u.so.bv {
			u := fr.u
			u.elemRefFuns()
			r := u.define("elemptr", "Int", app("elemref", lv.arr, lv.idx))
			u.assume(and(app("<", r, "0"), eq(app("earr", r), lv.arr), eq(app("eidx", r), lv.idx)))
			val := Val{T: r, Ty: v.Type(), S: "Int"}
			fr.vals[v] = val
			return val
		}
		fr.u.unsupportedAt(fr.curReach(), fmt.Sprintf("interior pointer %s used as value in %s", v.Name(), fr.fn.Name()))
		return Val{T: "0", Ty: v.Type(), S: "Int"}
	}
	if fv, ok := v.(*ssa.FreeVar); ok {
		fr.u.unsupportedAt(fr.curReach(), "free variable "+fv.Name())
		n := fr.u.fresh("freevar", fr.u.so.sortOf(v.Type()))
		val := Val{T: n, Ty: v.Type(), S: fr.u.so.sortOf(v.Type())}
		fr.vals[v] = val
		return val
	}
	panic(fmt.Sprintf("valOf: no value for %s (%T) in %s", v.Name(), v, fr.fn))
}

func (fr *Frame) curReach() string {
	if r, ok := fr.reach[fr.curBlock]; ok {
		return r
	}
	return "true"
}

func (fr *Frame) lvOf(v ssa.Value) *LV {
	if lv, ok := fr.lvs[v]; ok {
		return lv
	}
	if g, ok := v.(*ssa.Global); ok {
		return &LV{kind: lvGlobal, glob: g, ty: g.Type().(*types.Pointer).Elem(), fresh: true}
	}
	pt, ok := v.Type().Underlying().(*types.Pointer)
	if !ok {
		panic("lvOf: not a pointer: " + v.String())
	}
	val := fr.valOf(v)
	_, isAlloc := v.(*ssa.Alloc)
	return &LV{kind: lvPtr, ref: val.T, ty: pt.Elem(), fresh: isAlloc}
}

// compFor returns heap component name and sort for objects of type t reached through a pointer.
func (u *Unit) memComp(t types.Type) (string, string) {
	if at, ok := t.Underlying().(*types.Array); ok {
		return u.elemComp(at.Elem())
	}
	return "M_" + mangle(typeKey(t)), arrSort("Int", u.so.sortOf(t))
}

func (u *Unit) elemComp(elem types.Type) (string, string) {
	k := typeKey(elem)
	if _, ok := elem.Underlying().(*types.Basic); ok {
		k = typeKey(elem.Underlying())
	}
	return "E_" + mangle(k), arrSort("Int", arrSort(u.so.idxSort(), u.so.sortOf(elem)))
}

func (u *Unit) globComp(g *ssa.Global) (string, string) {
	t := g.Type().(*types.Pointer).Elem()
	return "G_" + mangle(g.Pkg.Pkg.Path()+"."+g.Name()), u.so.sortOf(t)
}

// Interior pointers.  For the few struct types whose slice elements have their
// address taken as a value (&cells[i] stored in another object), a pointer is an
// Int that is either a positive object reference into M_T or a negative code
// elemref(arr, idx) for the element idx of backing array arr (E_T).
func (u *Unit) interior(t types.Type) bool {
	return u.eng.interiorTypes[typeKey(t)]
}

func (u *Unit) elemRefFuns() {
	u.declFun("elemref", "(Int Int) Int")
	u.declFun("earr", "(Int) Int")
	u.declFun("eidx", "(Int) Int")
}

func (u *Unit) loadPtr(h Heap, ref string, t types.Type) string {
	c, s := u.memComp(t)
	if !u.interior(t) || u.so.bv {
		return sel(u.comp(h, c, s), ref)
	}
	u.elemRefFuns()
	ec, es := u.elemComp(t)
	return ite(app(">=", ref, "0"), sel(u.comp(h, c, s), ref), sel(sel(u.comp(h, ec, es), app("earr", ref)), app("eidx", ref)))
}

func (fr *Frame) load(lv *LV, h Heap) string {
	u := fr.u
	switch lv.kind {
	case lvPtr:
		return u.loadPtr(h, lv.ref, lv.ty)
	case lvGlobal:
		c, s := u.globComp(lv.glob)
		return u.comp(h, c, s)
	case lvField:
		bs := u.so.sortOf(lv.base.ty)
		return u.so.getField(bs, fr.load(lv.base, h), lv.field)
	case lvElem:
		c, s := u.elemComp(lv.ty)
		return sel(sel(u.comp(h, c, s), lv.arr), lv.idx)
	}
	panic("load")
}

func (fr *Frame) store(lv *LV, v string, h Heap) {
	u := fr.u
	switch lv.kind {
	case lvPtr:
		c, s := u.memComp(lv.ty)
		cur := u.comp(h, c, s)
		if u.interior(lv.ty) && !u.so.bv && !lv.fresh {
			u.elemRefFuns()
			ec, es := u.elemComp(lv.ty)
			ecur := u.comp(h, ec, es)
			isObj := app(">=", lv.ref, "0")
			h[c] = u.define(c, s, ite(isObj, sto(cur, lv.ref, v), cur))
			a, i := app("earr", lv.ref), app("eidx", lv.ref)
			h[ec] = u.define(ec, es, ite(isObj, ecur, sto(ecur, a, sto(sel(ecur, a), i, v))))
			return
		}
		h[c] = u.define(c, s, sto(cur, lv.ref, v))
	case lvGlobal:
		c, s := u.globComp(lv.glob)
		u.comp(h, c, s)
		h[c] = u.define(c, s, v)
	case lvField:
		bs := u.so.sortOf(lv.base.ty)
		old := fr.load(lv.base, h)
		old = u.define("rec", bs, old)
		fr.store(lv.base, u.so.setField(bs, old, lv.field, v), h)
	case lvElem:
		c, s := u.elemComp(lv.ty)
		cur := u.comp(h, c, s)
		h[c] = u.define(c, s, sto(cur, lv.arr, sto(sel(cur, lv.arr), lv.idx, v)))
	}
}

func (fr *Frame) ctr(h Heap) string { return fr.u.comp(h, "ctr", "Int") }

func (fr *Frame) newRef(h Heap, prefix string) string {
	u := fr.u
	r := u.define(prefix, "Int", iadd(fr.ctr(h), "1"))
	h["ctr"] = r
	return r
}

// ---------------------------------------------------------------- encoding a body

type bodyResult struct {
	reach string
	vals  []Val
	heap  Heap
}

func (fr *Frame) mergeHeaps(edges []string, heaps []Heap) Heap {
	u := fr.u
	if len(heaps) == 1 {
		return heaps[0].clone()
	}
	out := Heap{}
	keys := map[string]bool{}
	for _, h := range heaps {
		for k := range h {
			keys[k] = true
		}
	}
	for _, k := range sortedKeys(keys) {
		sortK := u.comps[k]
		var terms []string
		same := true
		for _, h := range heaps {
			t := u.comp(h, k, sortK)
			terms = append(terms, t)
			if t != terms[0] {
				same = false
			}
		}
		if same {
			out[k] = terms[0]
			continue
		}
		t := terms[len(terms)-1]
		for i := len(terms) - 2; i >= 0; i-- {
			t = ite(edges[i], terms[i], t)
		}
		out[k] = u.define(k, sortK, t)
	}
	return out
}

func (fr *Frame) mergeVals(edges []string, vals []string, sortName, prefix string) string {
	same := true
	for _, v := range vals {
		if v != vals[0] {
			same = false
		}
	}
	if same {
		return vals[0]
	}
	t := vals[len(vals)-1]
	for i := len(vals) - 2; i >= 0; i-- {
		t = ite(edges[i], vals[i], t)
	}
	return fr.u.define(prefix, sortName, t)
}

// encode runs the body; returns merged exit.
func (fr *Frame) encode() bodyResult {
	u := fr.u
	fn := fr.fn
	fr.findLoops()
	order := rpo(fn)
	for _, b := range order {
		fr.curBlock = b.Index
		var heap Heap
		if b.Index == 0 {
			fr.reach[0] = fr.entryReach
			heap = fr.entryHeap.clone()
		} else if li := fr.loops[b.Index]; li != nil {
			heap = fr.loopHead(b, li)
		} else {
			var edges []string
			var heaps []Heap
			var preds []*ssa.BasicBlock
			for _, p := range b.Preds {
				if _, done := fr.reach[p.Index]; !done {
					continue
				}
				ec := fr.edgeCond[[2]int{p.Index, b.Index}]
				edges = append(edges, ec)
				heaps = append(heaps, fr.heapOut[p.Index])
				preds = append(preds, p)
			}
			if len(preds) == 0 {
				continue // unreachable
			}
			fr.reach[b.Index] = u.define(fmt.Sprintf("reach_%s_%d", fn.Name(), b.Index), "Bool", or(edges...))
			heap = fr.mergeHeaps(edges, heaps)
			// phis
			for _, ins := range b.Instrs {
				phi, ok := ins.(*ssa.Phi)
				if !ok {
					break
				}
				var vs []string
				var es []string
				for i, p := range b.Preds {
					if _, done := fr.reach[p.Index]; !done {
						continue
					}
					vs = append(vs, fr.valOf(phi.Edges[i]).T)
					es = append(es, fr.edgeCond[[2]int{p.Index, b.Index}])
				}
				s := u.so.sortOf(phi.Type())
				fr.vals[phi] = Val{T: fr.mergeVals(es, vs, s, "phi_"+phi.Name()), Ty: phi.Type(), S: s}
			}
		}
		if fr.reach[b.Index] == "false" {
			// still encode (cheap) so that values exist
		}
		for _, ins := range b.Instrs {
			if _, ok := ins.(*ssa.Phi); ok {
				continue
			}
			fr.exec(ins, b, heap)
		}
		fr.heapOut[b.Index] = heap
		// back edges
		for _, s := range b.Succs {
			if isBackEdge(b, s) {
				fr.loopLatch(b, s, fr.loops[s.Index])
			}
		}
	}
	// merged exit
	var res bodyResult
	if len(fr.rets) == 0 {
		res.reach = "false"
		res.heap = fr.entryHeap.clone()
		for i := 0; i < fn.Signature.Results().Len(); i++ {
			t := fn.Signature.Results().At(i).Type()
			res.vals = append(res.vals, Val{T: u.so.zero(t), Ty: t, S: u.so.sortOf(t)})
		}
		return res
	}
	var edges []string
	var heaps []Heap
	for _, r := range fr.rets {
		edges = append(edges, r.reach)
		heaps = append(heaps, r.heap)
	}
	res.reach = u.define("ret_"+fn.Name(), "Bool", or(edges...))
	res.heap = fr.mergeHeaps(edges, heaps)
	n := len(fr.rets[0].vals)
	for i := 0; i < n; i++ {
		var vs []string
		for _, r := range fr.rets {
			vs = append(vs, r.vals[i].T)
		}
		v0 := fr.rets[0].vals[i]
		res.vals = append(res.vals, Val{T: fr.mergeVals(edges, vs, v0.S, "res_"+fn.Name()), Ty: v0.Ty, S: v0.S})
	}
	return res
}

// ---------------------------------------------------------------- loops

// loopEnv builds the spec environment at a loop header with phi names bound by bind.
func (fr *Frame) loopEnv(li *loopInfo, h Heap, bind func(phi *ssa.Phi) Val) *Env {
	env := fr.baseEnv(h)
	hb := fr.fn.Blocks[li.header]
	// enclosing loops' phis first (outer names), then this loop's
	for _, ins := range hb.Instrs {
		phi, ok := ins.(*ssa.Phi)
		if !ok {
			break
		}
		if phi.Comment != "" {
			env.vars[phi.Comment] = bind(phi)
		}
	}
	env.at = hb
	env.loop = li
	return env
}

func (fr *Frame) loopHead(b *ssa.BasicBlock, li *loopInfo) Heap {
	u := fr.u
	fn := fr.fn
	var edges []string
	var heaps []Heap
	var preds []int
	for i, p := range b.Preds {
		if isBackEdge(p, b) {
			continue
		}
		if _, done := fr.reach[p.Index]; !done {
			continue
		}
		edges = append(edges, fr.edgeCond[[2]int{p.Index, b.Index}])
		heaps = append(heaps, fr.heapOut[p.Index])
		preds = append(preds, i)
	}
	fr.reach[b.Index] = u.define(fmt.Sprintf("reach_%s_%d", fn.Name(), b.Index), "Bool", or(edges...))
	entryHeap := fr.mergeHeaps(edges, heaps)
	// inv-init obligations, per entry edge
	if li.spec != nil {
		for k, pi := range preds {
			p := b.Preds[pi]
			env := fr.loopEnv(li, fr.heapOut[p.Index], func(phi *ssa.Phi) Val { return fr.valOf(phi.Edges[pi]) })
			fr.bindLoopLets(li, env)
			var proved []string
			for _, inv := range fr.activeInvs(li) {
				for _, part := range splitConj(inv.Expr) {
					g := env.evalBool(part)
					u.curPos = token.NoPos
					u.curReveal = inv.Reveal
					o := u.oblig("inv-init", fmt.Sprintf("loop %d invariant holds on entry: %s", li.ordinal, exprString(part)), implies(edges[k], g), inv.Props)
					u.curReveal = nil
					o.Pos = inv.Where
					if u.sequential() {
						// the conjuncts are proved in order: each may use the earlier ones (all are obligations)
						o.Extra = append(o.Extra, proved...)
						proved = append(proved, "(assert "+implies(edges[k], g)+")")
					}
				}
			}
		}
	}
	// havoc
	heap := entryHeap.clone()
	for _, c := range sortedKeys(li.mods) {
		s, ok := u.comps[c]
		if !ok {
			continue // component never materialised so far: handled below
		}
		if fms, precise := li.fieldMods[c]; precise {
			// only the listed fields of loop-invariant objects change
			cur := heap[c]
			if cur == "" {
				cur = u.comp(heap, c, s)
			}
			for _, fm := range fms {
				ref := fr.valOf(fm.ptr).T
				st := derefType(fm.ptr.Type())
				ss := u.so.sortOf(st)
				ft := st.Underlying().(*types.Struct).Field(fm.field).Type()
				nv := u.fresh("loopfield_"+st.Underlying().(*types.Struct).Field(fm.field).Name(), u.so.sortOf(ft))
				u.assume(u.typeInv(nv, ft, "1152921504606846976"))
				cur = u.define(c+"_loop", s, sto(cur, ref, u.so.setField(ss, sel(cur, ref), fm.field, nv)))
			}
			heap[c] = cur
			continue
		}
		heap[c] = u.fresh(c+"_loop", s)
	}
	// components first touched inside the loop are handled by pre-declaring them
	for _, c := range sortedKeys(li.mods) {
		if _, ok := u.comps[c]; !ok {
			if s := u.eng.compSortGuess(u, c); s != "" {
				u.comp(entryHeap, c, s)
				heap[c] = u.fresh(c+"_loop", s)
			}
		}
	}
	if li.mods["ctr"] {
		u.assume(app("<=", fr.ctr(entryHeap), fr.ctr(heap)))
	}
	li.headHeap = heap.clone()
	// phis: fresh
	for _, ins := range b.Instrs {
		phi, ok := ins.(*ssa.Phi)
		if !ok {
			break
		}
		s := u.so.sortOf(phi.Type())
		n := u.fresh("phi_"+phi.Comment+"_"+phi.Name(), s)
		fr.vals[phi] = Val{T: n, Ty: phi.Type(), S: s}
		u.assume(implies(fr.reach[b.Index], u.typeInv(n, phi.Type(), fr.ctr(heap))))
		if phi.Comment == "rangeindex" && isRangeIndexPhi(phi) && !u.so.bv {
			// SSA range-loop pattern k = phi(-1, k+1): k >= -1 is inductive by construction;
			// the increment happens only after the test k+1 < bound, so k < bound (or k == -1)
			u.assume(app("<=", "(- 1)", n))
			if iff, ok := b.Instrs[len(b.Instrs)-1].(*ssa.If); ok {
				if cmp, ok := iff.Cond.(*ssa.BinOp); ok && cmp.Op == token.LSS {
					if inc, ok := cmp.X.(*ssa.BinOp); ok && inc.Op == token.ADD && inc.X == phi {
						if bi, isIns := cmp.Y.(ssa.Instruction); !isIns || !li.body[bi.Block().Index] {
							if b.Succs[1] != nil && !li.body[b.Succs[1].Index] {
								bound := fr.valOf(cmp.Y).T
								u.assume(or(eq(n, "(- 1)"), app("<", n, bound)))
							}
						}
					}
				}
			}
		}
	}
	// implicit frame invariant
	if fr.frameAllowed != nil {
		for _, c := range sortedKeys(li.mods) {
			if f := fr.frameFormula(c, heap); f != "" {
				u.assume(implies(fr.reach[b.Index], f))
			}
		}
	}
	// assume invariants
	if li.spec != nil {
		env := fr.loopEnv(li, heap, func(phi *ssa.Phi) Val { return fr.vals[phi] })
		fr.bindLoopLets(li, env)
		for _, inv := range fr.activeInvs(li) {
			u.assume(implies(fr.reach[b.Index], env.evalBool(inv.Expr)))
		}
		if li.spec.Decreases != nil {
			m := env.eval(li.spec.Decreases.Expr)
			li.m0 = u.define("measure", m.S, m.T)
		}
		if li.spec.Split != nil && u.active(li.spec.Split.Props) {
			v := env.eval(li.spec.Split.Expr)
			t := u.define("split", v.S, v.T)
			u.splits = append(u.splits, splitInfo{term: t, sort: v.S, lo: li.spec.SplitLo, hi: li.spec.SplitHi, from: len(u.obls), reach: fr.reach[b.Index], text: li.spec.Split.Text})
		}
	}
	return heap
}

func (fr *Frame) bindLoopLets(li *loopInfo, env *Env) {
	if li.spec == nil {
		return
	}
	for _, l := range li.spec.Lets {
		v := env.eval(l.Expr)
		env.vars[l.Name] = v
	}
}

// frameFormula: forall pre-existing refs not allowed by modifies, comp is unchanged since entry.
func (fr *Frame) topEntryHeap() Heap {
	f := fr
	for f.parent != nil {
		f = f.parent
	}
	return f.entryHeap
}

func (fr *Frame) frameFormula(c string, h Heap) string {
	u := fr.u
	if c == "ctr" {
		return app("<=", fr.ctr(fr.entryHeap), fr.ctr(h))
	}
	s := u.comps[c]
	cur := u.comp(h, c, s)
	entry := fr.topEntryHeap()
	old := u.comp(entry, c, s)
	if cur == old {
		return ""
	}
	if strings.HasPrefix(c, "G_") {
		allowed := fr.frameAllowed(c, "", entry)
		return or(allowed, eq(cur, old))
	}
	allowed := fr.frameAllowed(c, "r!f", entry)
	if allowed == "true" {
		return ""
	}
	body := implies(and(app("<", "0", "r!f"), app("<=", "r!f", fr.ctr(entry)), not(allowed)), eq(sel(cur, "r!f"), sel(old, "r!f")))
	// field-level targets: at those objects the unlisted fields keep their values
	var fieldFacts []string
	var fieldRefs []string
	for _, t := range fr.frameTargets {
		if t.comp != c || t.field < 0 {
			continue
		}
		st := u.so.structs[t.structSort]
		for i := 0; i < st.NumFields(); i++ {
			listed := false
			for _, t2 := range fr.frameTargets {
				if t2.comp == c && t2.ref == t.ref && t2.field == i {
					listed = true
				}
			}
			if !listed {
				fieldFacts = append(fieldFacts, eq(u.so.getField(t.structSort, sel(cur, t.ref), i), u.so.getField(t.structSort, sel(old, t.ref), i)))
			}
		}
		fieldRefs = append(fieldRefs, not(eq("r!f", t.ref)))
	}
	if len(fieldRefs) > 0 {
		body = implies(and(app("<", "0", "r!f"), app("<=", "r!f", fr.ctr(entry)), not(allowed), and(fieldRefs...)), eq(sel(cur, "r!f"), sel(old, "r!f")))
	}
	return and("(forall ((r!f Int)) "+body+")", and(fieldFacts...))
}

func (fr *Frame) loopLatch(from, head *ssa.BasicBlock, li *loopInfo) {
	u := fr.u
	edge := fr.edgeCond[[2]int{from.Index, head.Index}]
	h := fr.heapOut[from.Index]
	pi := -1
	for i, p := range head.Preds {
		if p == from {
			pi = i
		}
	}
	if fr.frameAllowed != nil {
		for _, c := range sortedKeys(li.mods) {
			if _, ok := u.comps[c]; !ok {
				continue
			}
			if f := fr.frameFormula(c, h); f != "" {
				u.curPos = token.NoPos
				u.oblig("frame-preserve", fmt.Sprintf("loop %d keeps %s unchanged outside the modifies clause", li.ordinal, c), implies(edge, f), nil)
			}
		}
	}
	if li.spec == nil {
		fr.autoTermination(from, head, li, edge)
		return
	}
	env := fr.loopEnv(li, h, func(phi *ssa.Phi) Val { return fr.valOf(phi.Edges[pi]) })
	fr.bindLoopLets(li, env)
	var proved []string
	for _, inv := range fr.activeInvs(li) {
		for _, part := range splitConj(inv.Expr) {
			g := env.evalBool(part)
			u.curPos = token.NoPos
			u.curReveal = inv.Reveal
			o := u.oblig("inv-preserve", fmt.Sprintf("loop %d invariant preserved: %s", li.ordinal, exprString(part)), implies(edge, g), inv.Props)
			u.curReveal = nil
			o.Pos = inv.Where
			if u.sequential() {
				o.Extra = append(o.Extra, proved...)
				proved = append(proved, "(assert "+implies(edge, g)+")")
			}
		}
	}
	if li.spec.Decreases != nil {
		m := env.eval(li.spec.Decreases.Expr)
		var g string
		if isBVSort(m.S) {
			g = app("bvult", m.T, li.m0)
		} else {
			g = and(app("<=", "0", li.m0), app("<", m.T, li.m0))
		}
		o := u.oblig("decreases", fmt.Sprintf("loop %d measure decreases and is bounded: %s", li.ordinal, li.spec.Decreases.Text), implies(edge, g), li.spec.Decreases.Props)
		o.Pos = li.spec.Decreases.Where
	} else {
		fr.autoTermination(from, head, li, edge)
	}
}

// autoTermination: a loop without a decreases clause.  Range loops over a slice
// (the SSA builder's rangeindex pattern: k = phi(-1, k+1); if k+1 < n) terminate
// because the hidden index increases towards the fixed bound n; anything else
// needs an explicit measure.
func (fr *Frame) autoTermination(from, head *ssa.BasicBlock, li *loopInfo, edge string) {
	u := fr.u
	for _, ins := range head.Instrs {
		phi, ok := ins.(*ssa.Phi)
		if !ok {
			break
		}
		if phi.Comment != "rangeindex" {
			continue
		}
		// find "t = phi + 1; c = t < n; if c" in the header with n defined outside the loop
		if iff, ok := head.Instrs[len(head.Instrs)-1].(*ssa.If); ok {
			if cmp, ok := iff.Cond.(*ssa.BinOp); ok && cmp.Op == token.LSS {
				if inc, ok := cmp.X.(*ssa.BinOp); ok && inc.Op == token.ADD && inc.X == phi {
					if bi, isIns := cmp.Y.(ssa.Instruction); !isIns || !li.body[bi.Block().Index] {
						// structural argument: recorded as a discharged obligation without a solver call
						o := u.oblig("decreases", fmt.Sprintf("loop %d of %s: range loop, hidden index increases towards a fixed bound", li.ordinal, fr.fn.Name()), "true", nil)
						o.Detail = "range-loop"
						return
					}
				}
			}
		}
	}
	if fr.ct != nil && fr.ct.NoTerm != "" {
		u.assumed[fmt.Sprintf("termination of %s is not proved: %s", fr.fn.Name(), fr.ct.NoTerm)] = true
		return
	}
	u.oblig("decreases", fmt.Sprintf("loop %d of %s has no decreases clause", li.ordinal, fr.fn.Name()), implies(edge, "false"), nil).Detail = "missing-measure"
}

// activeInvs: invariants tagged with property ids are only used when checking one of those properties.
func (fr *Frame) activeInvs(li *loopInfo) []*Clause {
	var out []*Clause
	for _, inv := range li.spec.Invs {
		if !fr.u.active(inv.Props) {
			continue
		}
		out = append(out, inv)
	}
	return out
}

type fieldMod struct {
	ptr   ssa.Value
	field int
}

// refineFieldMods: a struct component whose only writes in the loop are stores
// to fields p.f of objects p that are defined outside the loop is havoced
// field-wise instead of wholesale.
func (fr *Frame) refineFieldMods(li *loopInfo) {
	u := fr.u
	li.fieldMods = map[string][]fieldMod{}
	whole := map[string]bool{}
	cand := map[string][]fieldMod{}
	inLoop := func(v ssa.Value) bool {
		if ins, ok := v.(ssa.Instruction); ok && ins.Block() != nil {
			return li.body[ins.Block().Index]
		}
		return false
	}
	for bi := range li.body {
		for _, ins := range fr.fn.Blocks[bi].Instrs {
			switch x := ins.(type) {
			case *ssa.Store:
				fa, ok := x.Addr.(*ssa.FieldAddr)
				if ok {
					if _, nested := fa.X.(*ssa.FieldAddr); !nested {
						if _, isPtr := fa.X.Type().Underlying().(*types.Pointer); isPtr && !inLoop(fa.X) {
							if _, isG := fa.X.(*ssa.Global); !isG {
								c, _ := u.memComp(derefType(fa.X.Type()))
								dup := false
								for _, e := range cand[c] {
									if e.ptr == fa.X && e.field == fa.Field {
										dup = true
									}
								}
								if !dup {
									cand[c] = append(cand[c], fieldMod{fa.X, fa.Field})
								}
								continue
							}
						}
					}
				}
				// any other store: whole component
				m := map[string]bool{}
				u.eng.instrMods(ins, m, 0)
				for c := range m {
					whole[c] = true
				}
			case *ssa.Call, *ssa.Defer:
				m := map[string]bool{}
				u.eng.instrMods(ins, m, 0)
				for c := range m {
					whole[c] = true
				}
			}
		}
	}
	for c, fms := range cand {
		if !whole[c] && strings.HasPrefix(c, "M_") {
			li.fieldMods[c] = fms
		}
	}
}

func isRangeIndexPhi(phi *ssa.Phi) bool {
	for _, e := range phi.Edges {
		switch x := e.(type) {
		case *ssa.Const:
			if x.Value == nil || x.Value.String() != "-1" {
				return false
			}
		case *ssa.BinOp:
			if x.Op != token.ADD || x.X != phi {
				return false
			}
			c, ok := x.Y.(*ssa.Const)
			if !ok || c.Value == nil || c.Value.String() != "1" {
				return false
			}
		default:
			return false
		}
	}
	return true
}
