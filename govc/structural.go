package main

// Structural obligations: decided by CFG / use-def analyses over the SSA
// form rather than by an SMT solver (encapsulation of owned fields, package
// variables written only by init, join-before-return, lock discipline ...).

func (e *Engine) structuralObligations(prop string) []*Oblig {
	return nil
}
