package main

// Structural obligations: decided by CFG / use-def analyses over the SSA
// form of the whole repository rather than by an SMT solver.
//
//   globals-init-only  a package variable named in a `global` clause is stored
//                      only by its package initialiser; a map held in it is
//                      only read elsewhere
//   encapsulated       an `owned` field's backing array never leaves its type
//   (more kinds are added by the pipeline properties: see pipeline.go)

import (
	"fmt"
	"go/ast"
	"go/types"
	"sort"
	"strings"

	"golang.org/x/tools/go/ssa"
)

func (e *Engine) repoFunctions() []*ssa.Function {
	var out []*ssa.Function
	for k, fn := range e.fnByKey {
		_ = k
		if fn.Blocks == nil {
			continue
		}
		if e.inRepoStrict(fn) {
			out = append(out, fn)
		}
	}
	sort.Slice(out, func(i, j int) bool { return out[i].String() < out[j].String() })
	return out
}

func (e *Engine) inRepoStrict(fn *ssa.Function) bool {
	p := fn.Pkg
	if p == nil && fn.Parent() != nil {
		p = fn.Parent().Pkg
	}
	if p == nil && fn.Origin() != nil {
		p = fn.Origin().Pkg
	}
	return p != nil && strings.HasPrefix(p.Pkg.Path(), e.modPath)
}

func structOblig(name, kind, clause string, props []string, problems []string) *Oblig {
	o := &Oblig{Name: name, Kind: kind, Fn: "whole-program", Clause: clause, Props: props, Structural: true, Solver: "ssa-analysis"}
	if len(problems) == 0 {
		o.Result = "ok"
	} else {
		o.Result = "violated"
		o.Model = strings.Join(problems, "\n")
		o.Detail = problems[0]
	}
	return o
}

func isInitFn(fn *ssa.Function) bool {
	return fn.Name() == "init" || strings.HasPrefix(fn.Name(), "init#")
}

// identsOf collects identifier names in an expression.
func identsOf(x ast.Expr) []string {
	var out []string
	ast.Inspect(x, func(n ast.Node) bool {
		if id, ok := n.(*ast.Ident); ok {
			out = append(out, id.Name)
		}
		return true
	})
	return out
}

func (e *Engine) pos(ins ssa.Instruction) string {
	p := e.prog.Fset.Position(ins.Pos())
	if !p.IsValid() {
		return ins.Parent().String()
	}
	return fmt.Sprintf("%s:%d", shortPath(p.Filename), p.Line)
}

func (e *Engine) globalsInitOnly(prop string) []*Oblig {
	var out []*Oblig
	seen := map[*ssa.Global]bool{}
	probe := &Unit{prop: prop}
	for _, g := range e.lib.Globals {
		if !probe.active(g.Clause.Props) || len(g.Clause.Props) == 0 {
			continue
		}
		pkg := e.ssaPkgs[g.Pkg]
		if pkg == nil {
			continue
		}
		for _, name := range identsOf(g.Clause.Expr) {
			gv, ok := pkg.Members[name].(*ssa.Global)
			if !ok || seen[gv] {
				continue
			}
			seen[gv] = true
			var problems []string
			for _, fn := range e.repoFunctions() {
				inInit := fn.Pkg == pkg && isInitFn(fn)
				for _, b := range fn.Blocks {
					for _, ins := range b.Instrs {
						switch x := ins.(type) {
						case *ssa.Store:
							if root := addrRoot(x.Addr); root == gv && !inInit {
								problems = append(problems, fmt.Sprintf("%s: package variable %s is written outside its package initialiser", e.pos(ins), name))
							}
						case *ssa.UnOp:
							if x.X == gv && !inInit {
								// value loaded from the variable: only read-only uses allowed
								for _, ref := range *x.Referrers() {
									if !readOnlyUse(ref, x) {
										problems = append(problems, fmt.Sprintf("%s: value of package variable %s escapes or is modified (%T)", e.pos(ref), name, ref))
									}
								}
							}
						}
						// address of the variable taken as a value
						if !inInit {
							for _, op := range ins.Operands(nil) {
								if *op == gv {
									switch y := ins.(type) {
									case *ssa.Store:
										if y.Addr != gv {
											problems = append(problems, fmt.Sprintf("%s: address of %s stored", e.pos(ins), name))
										}
									case *ssa.UnOp, *ssa.DebugRef:
									default:
										problems = append(problems, fmt.Sprintf("%s: address of package variable %s escapes (%T)", e.pos(ins), name, ins))
									}
								}
							}
						}
					}
				}
			}
			out = append(out, structOblig("globals-init-only/"+g.Pkg[strings.LastIndex(g.Pkg, "/")+1:]+"."+name, "globals-init-only",
				fmt.Sprintf("package variable %s.%s is assigned only by its package initialiser and only read elsewhere (it is relied on as a constant by: %s)", pkg.Pkg.Name(), name, g.Clause.Text),
				g.Clause.Props, problems))
		}
	}
	return out
}

func addrRoot(v ssa.Value) ssa.Value {
	for {
		switch x := v.(type) {
		case *ssa.FieldAddr:
			v = x.X
			continue
		case *ssa.IndexAddr:
			v = x.X
			continue
		}
		return v
	}
}

// readOnlyUse: instruction ref uses value v only to read from it.
func readOnlyUse(ref ssa.Instruction, v ssa.Value) bool {
	switch x := ref.(type) {
	case *ssa.DebugRef:
		return true
	case *ssa.Lookup:
		return x.X == v
	case *ssa.Range:
		return true
	case *ssa.BinOp:
		return true // comparison
	case *ssa.Call:
		if b, ok := x.Call.Value.(*ssa.Builtin); ok && (b.Name() == "len" || b.Name() == "cap") {
			return true
		}
		// passing a non-reference value (duration, int, *time.Location used read-only by package time) is fine
		switch v.Type().Underlying().(type) {
		case *types.Basic:
			return true
		case *types.Pointer:
			if callee := x.Call.StaticCallee(); callee != nil && callee.Pkg != nil && callee.Pkg.Pkg.Path() == "time" {
				return true
			}
		}
		return false
	case *ssa.Convert, *ssa.ChangeType:
		_, isBasic := v.Type().Underlying().(*types.Basic)
		return isBasic
	case *ssa.UnOp:
		_, isBasic := v.Type().Underlying().(*types.Basic)
		return isBasic
	case *ssa.Store:
		// storing a basic value elsewhere copies it
		if x.Val == v {
			_, isBasic := v.Type().Underlying().(*types.Basic)
			return isBasic
		}
		return false
	case *ssa.Return, *ssa.Phi, *ssa.MakeInterface:
		_, isBasic := v.Type().Underlying().(*types.Basic)
		return isBasic
	}
	return false
}

// encapsulation of owned fields: the slice held in the field is created,
// resliced and appended to only inside methods of the declaring package, and
// neither the slice nor a pointer into it leaves those methods.
func (e *Engine) encapsulated(prop string) []*Oblig {
	var out []*Oblig
	var keys []string
	for k := range e.lib.Types {
		keys = append(keys, k)
	}
	sort.Strings(keys)
	for _, tk := range keys {
		ts := e.lib.Types[tk]
		for _, fname := range ts.Owned {
			t := e.typeByKey(tk)
			if t == nil {
				continue
			}
			st, ok := t.Underlying().(*types.Struct)
			if !ok {
				continue
			}
			fidx := -1
			for i := 0; i < st.NumFields(); i++ {
				if st.Field(i).Name() == fname {
					fidx = i
				}
			}
			var problems []string
			for _, fn := range e.repoFunctions() {
				for _, b := range fn.Blocks {
					for _, ins := range b.Instrs {
						fa, ok := ins.(*ssa.FieldAddr)
						if !ok || fa.Field != fidx || !types.Identical(derefType(fa.X.Type()), t) {
							continue
						}
						samePkg := fn.Pkg != nil && fn.Pkg.Pkg.Path() == tk[:strings.LastIndex(tk, ".")]
						if !samePkg {
							problems = append(problems, fmt.Sprintf("%s: field %s accessed outside its package", e.pos(ins), fname))
							continue
						}
						for _, ref := range *fa.Referrers() {
							switch r := ref.(type) {
							case *ssa.DebugRef:
							case *ssa.Store:
								if r.Addr != fa {
									problems = append(problems, fmt.Sprintf("%s: address of owned field stored", e.pos(ref)))
								} else if !ownedSource(r.Val, fidx, t) {
									problems = append(problems, fmt.Sprintf("%s: owned field %s assigned a slice that may be shared with the outside", e.pos(ref), fname))
								}
							case *ssa.UnOp:
								for _, use := range *r.Referrers() {
									if !ownedUse(use, r, fidx, t) {
										problems = append(problems, fmt.Sprintf("%s: slice held in owned field %s escapes (%T)", e.pos(use), fname, use))
									}
								}
							default:
								problems = append(problems, fmt.Sprintf("%s: address of owned field %s escapes (%T)", e.pos(ref), fname, ref))
							}
						}
					}
				}
			}
			// composite literals / whole-struct stores of the type outside its package could smuggle a slice in
			out = append(out, structOblig("encapsulated/"+tk[strings.LastIndex(tk, "/")+1:]+"."+fname, "encapsulated",
				fmt.Sprintf("the backing array of %s.%s is private: created, resliced and appended to only by its package, never returned, stored elsewhere or passed on", tk, fname),
				nil, problems))
		}
	}
	return out
}

// ownedSource: value stored into an owned field derives from the field itself or is freshly allocated.
func ownedSource(v ssa.Value, fidx int, t types.Type) bool {
	switch x := v.(type) {
	case *ssa.Const:
		return x.Value == nil
	case *ssa.MakeSlice:
		return true
	case *ssa.Slice:
		if _, ok := x.X.(*ssa.Alloc); ok {
			return true
		}
		return ownedSource(x.X, fidx, t)
	case *ssa.UnOp:
		if fa, ok := x.X.(*ssa.FieldAddr); ok && fa.Field == fidx && types.Identical(derefType(fa.X.Type()), t) {
			return true
		}
	case *ssa.Call:
		if b, ok := x.Call.Value.(*ssa.Builtin); ok && b.Name() == "append" {
			return ownedSource(x.Call.Args[0], fidx, t)
		}
	}
	return false
}

func ownedUse(use ssa.Instruction, v ssa.Value, fidx int, t types.Type) bool {
	switch x := use.(type) {
	case *ssa.DebugRef:
		return true
	case *ssa.BinOp:
		return true
	case *ssa.IndexAddr:
		// element pointer: only loaded from / stored to
		for _, r := range *x.Referrers() {
			switch rr := r.(type) {
			case *ssa.UnOp, *ssa.DebugRef:
			case *ssa.Store:
				if rr.Addr != x {
					return false
				}
			default:
				return false
			}
		}
		return true
	case *ssa.Slice:
		for _, r := range *x.Referrers() {
			switch rr := r.(type) {
			case *ssa.DebugRef:
			case *ssa.Store:
				fa, ok := rr.Addr.(*ssa.FieldAddr)
				if !ok || fa.Field != fidx || !types.Identical(derefType(fa.X.Type()), t) {
					return false
				}
			default:
				return false
			}
		}
		return true
	case *ssa.Call:
		if b, ok := x.Call.Value.(*ssa.Builtin); ok {
			switch b.Name() {
			case "len", "cap":
				return true
			case "append":
				if x.Call.Args[0] != v {
					return false
				}
				for _, r := range *x.Referrers() {
					switch rr := r.(type) {
					case *ssa.DebugRef:
					case *ssa.Store:
						fa, ok := rr.Addr.(*ssa.FieldAddr)
						if !ok || fa.Field != fidx || !types.Identical(derefType(fa.X.Type()), t) {
							return false
						}
					default:
						return false
					}
				}
				return true
			}
		}
	}
	return false
}

func (e *Engine) structuralObligations(prop string) []*Oblig {
	var out []*Oblig
	out = append(out, e.globalsInitOnly(prop)...)
	switch prop {
	case "C02", "C03", "C12", "C07", "C09", "C10", "C13", "C19":
		out = append(out, e.encapsulated(prop)...)
	}
	if prop == "C15" {
		out = append(out, e.determinism(prop)...)
	}
	out = append(out, e.pipelineObligations(prop)...)
	return out
}

// ---------------------------------------------------------------- C15: determinism, no hidden state

// coneOf returns the repository functions statically reachable from the roots.
func (e *Engine) coneOf(roots []string) []*ssa.Function {
	seen := map[*ssa.Function]bool{}
	var out []*ssa.Function
	var visit func(fn *ssa.Function)
	visit = func(fn *ssa.Function) {
		if fn == nil || seen[fn] || fn.Blocks == nil {
			return
		}
		if !e.inRepoStrict(fn) && !(fn.Pkg != nil && e.inlinePkgs[fn.Pkg.Pkg.Path()]) {
			return
		}
		seen[fn] = true
		out = append(out, fn)
		for _, b := range fn.Blocks {
			for _, ins := range b.Instrs {
				switch x := ins.(type) {
				case *ssa.Call:
					visit(x.Call.StaticCallee())
				case *ssa.Defer:
					visit(x.Call.StaticCallee())
				case *ssa.Go:
					visit(x.Call.StaticCallee())
				case *ssa.MakeClosure:
					if f, ok := x.Fn.(*ssa.Function); ok {
						visit(f)
					}
				}
			}
		}
	}
	for _, k := range roots {
		visit(e.fnByKey[k])
	}
	sort.Slice(out, func(i, j int) bool { return out[i].String() < out[j].String() })
	return out
}

func (e *Engine) determinism(prop string) []*Oblig {
	roots := extraRoots["C07"]
	cone := e.coneOf(roots)
	// stores to package variables anywhere in the repository
	writtenOutsideInit := map[*ssa.Global][]string{}
	for _, fn := range e.repoFunctions() {
		for _, b := range fn.Blocks {
			for _, ins := range b.Instrs {
				if st, ok := ins.(*ssa.Store); ok {
					if g, ok := addrRoot(st.Addr).(*ssa.Global); ok && !(isInitFn(fn) && fn.Pkg == g.Pkg) {
						writtenOutsideInit[g] = append(writtenOutsideInit[g], e.pos(ins))
					}
				}
			}
		}
	}
	var hidden, nondet []string
	channelOK := map[string]bool{"HandleMessages": true, "get": true, "GetNextByte": true, "Close": true}
	for _, fn := range cone {
		for _, b := range fn.Blocks {
			for _, ins := range b.Instrs {
				switch x := ins.(type) {
				case *ssa.Store:
					if g, ok := addrRoot(x.Addr).(*ssa.Global); ok && !isInitFn(fn) {
						hidden = append(hidden, fmt.Sprintf("%s: %s writes package variable %s", e.pos(ins), fn.Name(), g.Name()))
					}
				case *ssa.UnOp:
					if g, ok := x.X.(*ssa.Global); ok && x.Op.String() == "*" {
						if w := writtenOutsideInit[g]; len(w) > 0 {
							hidden = append(hidden, fmt.Sprintf("%s: %s reads package variable %s, which is written at %s", e.pos(ins), fn.Name(), g.Name(), w[0]))
						}
					}
					if x.Op.String() == "<-" && !channelOK[fn.Name()] {
						nondet = append(nondet, fmt.Sprintf("%s: channel receive in %s", e.pos(ins), fn.Name()))
					}
				case *ssa.Go:
					nondet = append(nondet, fmt.Sprintf("%s: goroutine started in %s", e.pos(ins), fn.Name()))
				case *ssa.Select:
					nondet = append(nondet, fmt.Sprintf("%s: select in %s", e.pos(ins), fn.Name()))
				case *ssa.Send:
					if !channelOK[fn.Name()] {
						nondet = append(nondet, fmt.Sprintf("%s: channel send in %s", e.pos(ins), fn.Name()))
					}
				case *ssa.Range:
					if _, isMap := x.X.Type().Underlying().(*types.Map); isMap {
						nondet = append(nondet, fmt.Sprintf("%s: iteration over a map in %s (order is not deterministic)", e.pos(ins), fn.Name()))
					}
				case *ssa.Call:
					if callee := x.Call.StaticCallee(); callee != nil && callee.Pkg != nil {
						p := callee.Pkg.Pkg.Path()
						n := callee.Name()
						if (p == "time" && (n == "Now" || n == "Since" || n == "Until")) || p == "math/rand" || p == "crypto/rand" || (p == "os" && (n == "Getenv" || n == "Getpid")) {
							nondet = append(nondet, fmt.Sprintf("%s: %s calls %s.%s", e.pos(ins), fn.Name(), p, n))
						}
					}
				}
			}
		}
	}
	var names []string
	for _, fn := range cone {
		names = append(names, shortKey(fn.String()))
	}
	o1 := structOblig("no-hidden-state/decode-display-cone", "no-hidden-state",
		fmt.Sprintf("no function reachable from framing, decoding and display (%d functions) writes a package variable, and every package variable they read is assigned only by its package initialiser", len(cone)),
		[]string{prop}, hidden)
	o1.Detail = strings.Join(names, ", ")
	o2 := structOblig("deterministic/decode-display-cone", "deterministic",
		"no function reachable from framing, decoding and display starts a goroutine, selects, iterates over a map, reads the clock or a random source; channel operations occur only in the stream handler and the byte channel",
		[]string{prop}, nondet)
	// Repeated display gives identical text: the display functions write two fields of a message
	// (Readable, ErrorMessage).  If a value stored into one of them never depends on the previous
	// content of that same field, then - the functions being deterministic and leaving every other
	// field alone (frame clauses) - displaying again recomputes the same values.
	var selfdep []string
	for _, fn := range cone {
		for _, b := range fn.Blocks {
			for _, ins := range b.Instrs {
				st, ok := ins.(*ssa.Store)
				if !ok {
					continue
				}
				fa, ok := st.Addr.(*ssa.FieldAddr)
				if !ok {
					continue
				}
				named, ok := derefType(fa.X.Type()).(*types.Named)
				if !ok || named.Obj().Pkg() == nil || named.Obj().Pkg().Path() != e.modPath+"/rtcm/handler" || named.Obj().Name() != "Message" {
					continue
				}
				if _, fresh := fa.X.(*ssa.Alloc); fresh {
					continue
				}
				fname := named.Underlying().(*types.Struct).Field(fa.Field).Name()
				if dependsOnFieldLoad(st.Val, named, fa.Field, map[ssa.Value]bool{}) {
					selfdep = append(selfdep, fmt.Sprintf("%s: %s stores into Message.%s a value computed from the previous Message.%s", e.pos(ins), fn.Name(), fname, fname))
				}
			}
		}
	}
	o3 := structOblig("idempotent-display/decode-display-cone", "deterministic",
		"no function reachable from framing, decoding and display stores into a field of a Message a value that depends on the previous content of that field (repeated display recomputes the same values)",
		[]string{prop}, selfdep)
	o4 := structOblig("lazy-analysis-first/decode-display-cone", "deterministic",
		"a display method that analyses its receiver lazily reads the fields the analysis may set only after the analysis (the first display of a message gives the same text as every later one)",
		[]string{prop}, e.lazyAnalysisFirst(cone))
	return []*Oblig{o1, o2, o3, o4}
}

// fieldsStoredBy: indices of the fields of named struct type t that f, or a repository function it
// calls (to a small depth), stores into.
func (e *Engine) fieldsStoredBy(f *ssa.Function, t *types.Named, depth int, seen map[*ssa.Function]bool, out map[int]bool) {
	if f == nil || depth > 4 || seen[f] {
		return
	}
	seen[f] = true
	for _, b := range f.Blocks {
		for _, ins := range b.Instrs {
			switch x := ins.(type) {
			case *ssa.Store:
				if fa, ok := x.Addr.(*ssa.FieldAddr); ok {
					if n, ok := derefType(fa.X.Type()).(*types.Named); ok && n == t {
						out[fa.Field] = true
					}
				}
			case *ssa.Call:
				if c := x.Call.StaticCallee(); c != nil && e.inRepoStrict(c) {
					e.fieldsStoredBy(c, t, depth+1, seen, out)
				}
			}
		}
	}
}

// lazyAnalysisFirst: in a String method that calls a function which stores into fields of the
// receiver's type (lazy analysis), a read of such a field from which a call of the analysis can
// still be reached sees the value from before the analysis - the text of the first display then
// differs from the text of later ones.  The read that guards the call itself (if x.F == nil
// { analyse(x) }) is the one exception.
func (e *Engine) lazyAnalysisFirst(cone []*ssa.Function) []string {
	var problems []string
	for _, fn := range cone {
		if fn.Name() != "String" || fn.Signature.Recv() == nil || len(fn.Blocks) == 0 {
			continue
		}
		t, ok := derefType(fn.Signature.Recv().Type()).(*types.Named)
		if !ok {
			continue
		}
		if _, isStruct := t.Underlying().(*types.Struct); !isStruct {
			continue
		}
		type site struct {
			call *ssa.Call
			w    map[int]bool
		}
		var sites []site
		for _, b := range fn.Blocks {
			for _, ins := range b.Instrs {
				c, ok := ins.(*ssa.Call)
				if !ok {
					continue
				}
				callee := c.Call.StaticCallee()
				if callee == nil || !e.inRepoStrict(callee) {
					continue
				}
				w := map[int]bool{}
				e.fieldsStoredBy(callee, t, 0, map[*ssa.Function]bool{}, w)
				if len(w) > 0 {
					sites = append(sites, site{c, w})
				}
			}
		}
		if len(sites) == 0 {
			continue
		}
		index := func(ins ssa.Instruction) int {
			for i, x := range ins.Block().Instrs {
				if x == ins {
					return i
				}
			}
			return -1
		}
		reaches := func(from ssa.Instruction, to ssa.Instruction) bool {
			if from.Block() == to.Block() && index(from) < index(to) {
				return true
			}
			seen := map[*ssa.BasicBlock]bool{}
			stack := append([]*ssa.BasicBlock(nil), from.Block().Succs...)
			for len(stack) > 0 {
				b := stack[len(stack)-1]
				stack = stack[:len(stack)-1]
				if seen[b] {
					continue
				}
				seen[b] = true
				if b == to.Block() {
					return true
				}
				stack = append(stack, b.Succs...)
			}
			return false
		}
		guardOnly := func(load *ssa.UnOp, call *ssa.Call) bool {
			refs := load.Referrers()
			if refs == nil || len(*refs) == 0 {
				return false
			}
			for _, r := range *refs {
				if _, isDbg := r.(*ssa.DebugRef); isDbg {
					continue
				}
				cmp, ok := r.(*ssa.BinOp)
				if !ok || cmp.Referrers() == nil {
					return false
				}
				for _, r2 := range *cmp.Referrers() {
					if _, isDbg := r2.(*ssa.DebugRef); isDbg {
						continue
					}
					iff, ok := r2.(*ssa.If)
					if !ok {
						return false
					}
					direct := false
					for _, sc := range iff.Block().Succs {
						if sc == call.Block() {
							direct = true
						}
					}
					if !direct {
						return false
					}
				}
			}
			return true
		}
		st := t.Underlying().(*types.Struct)
		for _, b := range fn.Blocks {
			for _, ins := range b.Instrs {
				ld, ok := ins.(*ssa.UnOp)
				if !ok || ld.Op.String() != "*" {
					continue
				}
				fa, ok := ld.X.(*ssa.FieldAddr)
				if !ok {
					continue
				}
				if n, ok := derefType(fa.X.Type()).(*types.Named); !ok || n != t {
					continue
				}
				for _, sc := range sites {
					if !sc.w[fa.Field] || !reaches(ld, sc.call) || guardOnly(ld, sc.call) {
						continue
					}
					problems = append(problems, fmt.Sprintf("%s: %s.String reads %s.%s and can still call %s afterwards (%s), which may set that field: the first display differs from later ones",
						e.pos(ld), t.Obj().Name(), t.Obj().Name(), st.Field(fa.Field).Name(), sc.call.Call.StaticCallee().Name(), e.pos(sc.call)))
				}
			}
		}
	}
	return problems
}

// dependsOnFieldLoad: does v depend (through SSA data flow within the function) on a load of
// field idx of an object of the given named struct type?
func dependsOnFieldLoad(v ssa.Value, named *types.Named, idx int, seen map[ssa.Value]bool) bool {
	if v == nil || seen[v] {
		return false
	}
	seen[v] = true
	if u, ok := v.(*ssa.UnOp); ok && u.Op.String() == "*" {
		if fa, ok := u.X.(*ssa.FieldAddr); ok && fa.Field == idx {
			if n, ok := derefType(fa.X.Type()).(*types.Named); ok && n == named {
				return true
			}
		}
	}
	if f, ok := v.(*ssa.Field); ok && f.Field == idx {
		if n, ok := f.X.Type().(*types.Named); ok && n == named {
			return true
		}
	}
	ins, ok := v.(ssa.Instruction)
	if !ok {
		return false
	}
	for _, op := range ins.Operands(nil) {
		if op != nil && *op != nil && dependsOnFieldLoad(*op, named, idx, seen) {
			return true
		}
	}
	return false
}
