package main

// Counterexample extraction and replay against the real code.
//
// When an obligation is answered "sat", the model is probed for the values of
// the function's parameters (integers, byte slices); those become hints for the
// property's executable oracle (/verif/oracle/<prop>.go.txt), which drives the
// real entry points with the hinted input and with a seeded neighbourhood of
// inputs and judges the outcome with an independent reference implementation.

import (
	"bytes"
	"encoding/hex"
	"encoding/json"
	"fmt"
	"go/types"
	"os"
	"os/exec"
	"path/filepath"
	"regexp"
	"strconv"
	"strings"
)

// getValues runs the obligation's query followed by get-value on terms.
func getValues(o *Oblig, extra []string, terms []string, workDir string) (map[string]string, bool) {
	q := o.query(10)
	for _, e := range extra {
		q = strings.Replace(q, "(check-sat)\n", "(assert "+e+")\n(check-sat)\n", 1)
	}
	q += "(get-value (" + strings.Join(terms, " ") + "))\n"
	f := filepath.Join(workDir, "probe_"+mangle(o.Name)+".smt2")
	os.WriteFile(f, []byte(q), 0o644)
	defer os.Remove(f)
	for _, s := range []string{"z3-new", "z3", "cvc5"} {
		var cmd *exec.Cmd
		if s == "cvc5" {
			cmd = exec.Command("cvc5", "--tlimit=10000", f)
		} else {
			cmd = exec.Command(s, "-T:10", f)
		}
		out, _ := cmd.CombinedOutput()
		text := string(out)
		if !strings.HasPrefix(strings.TrimSpace(text), "sat") {
			continue
		}
		body := text[strings.Index(text, "sat")+3:]
		vals := parseGetValue(body, terms)
		if vals != nil {
			return vals, true
		}
	}
	return nil, false
}

// parseGetValue parses "((t1 v1) (t2 v2) ...)".
func parseGetValue(s string, terms []string) map[string]string {
	s = strings.TrimSpace(strings.NewReplacer("\n", " ", "\t", " ", "\r", " ").Replace(s))
	if !strings.HasPrefix(s, "(") {
		return nil
	}
	items := splitArgs(s[1:strings.LastIndex(s, ")")])
	out := map[string]string{}
	for i, it := range items {
		if i >= len(terms) || len(it) < 2 {
			break
		}
		parts := splitArgs(it[1 : len(it)-1])
		if len(parts) >= 2 {
			out[terms[i]] = strings.Join(parts[1:], " ")
		}
	}
	return out
}

var intValRe = regexp.MustCompile(`^\(?\s*(-)?\s*(\d+)\s*\)?$`)

func smtInt(v string) (int64, bool) {
	v = strings.TrimSpace(v)
	if m := regexp.MustCompile(`^\(- (\d+)\)$`).FindStringSubmatch(v); m != nil {
		n, err := strconv.ParseInt(m[1], 10, 64)
		return -n, err == nil
	}
	if m := regexp.MustCompile(`^#x([0-9a-fA-F]+)$`).FindStringSubmatch(v); m != nil {
		n, err := strconv.ParseUint(m[1], 16, 64)
		return int64(n), err == nil
	}
	if m := regexp.MustCompile(`^#b([01]+)$`).FindStringSubmatch(v); m != nil {
		n, err := strconv.ParseUint(m[1], 2, 64)
		return int64(n), err == nil
	}
	n, err := strconv.ParseInt(v, 10, 64)
	return n, err == nil
}

// modelHints extracts parameter values of the unit's function from a sat model.
func modelHints(o *Oblig, workDir string) map[string]interface{} {
	u := o.Unit
	if u == nil || o.Result != "sat" || u.fn == nil {
		return nil
	}
	hints := map[string]interface{}{"function": u.name}
	type sl struct {
		name, term string
		elemComp   string
	}
	var terms []string
	var names []string
	var slices []sl
	for i, p := range u.fn.Params {
		pn := fmt.Sprintf("p_%s!%d", mangle(p.Name()), i+1)
		// the fresh counter: params are declared first, in order, after ctr
		_ = pn
	}
	// find the declared parameter constants in the prefix
	decl := regexp.MustCompile(`^\(declare-const (p_[A-Za-z0-9_]+!\d+) (.+)\)$`)
	pconst := map[string]string{}
	for _, l := range u.lines[:o.Prefix] {
		if m := decl.FindStringSubmatch(l); m != nil {
			base := m[1][2:strings.Index(m[1], "!")]
			if _, dup := pconst[base]; !dup {
				pconst[base] = m[1]
			}
		}
	}
	for _, p := range u.fn.Params {
		c, ok := pconst[mangle(p.Name())]
		if !ok {
			continue
		}
		switch t := p.Type().Underlying().(type) {
		case *types.Basic:
			if _, _, isInt := intInfo(t); isInt {
				terms = append(terms, c)
				names = append(names, p.Name())
			}
		case *types.Slice:
			if b, ok := t.Elem().Underlying().(*types.Basic); ok && b.Kind() == types.Uint8 {
				terms = append(terms, app("s_len", c))
				names = append(names, "len:"+p.Name())
				slices = append(slices, sl{p.Name(), c, "H0_E_uint8"})
			}
		}
	}
	if len(terms) == 0 {
		return hints
	}
	vals, ok := getValues(o, nil, terms, workDir)
	if !ok {
		return hints
	}
	var pins []string
	for i, t := range terms {
		if n, ok := smtInt(vals[t]); ok {
			hints[names[i]] = n
			pins = append(pins, eq(t, smtLitOf(vals[t])))
		}
	}
	for _, s := range slices {
		n, _ := hints["len:"+s.name].(int64)
		if n > 4096 {
			hints["skipped:"+s.name] = "slice too long to materialise"
			continue
		}
		if _, declared := u.comps["E_uint8"]; !declared {
			continue
		}
		var bt []string
		for k := int64(0); k < n; k++ {
			if u.so.bv {
				bt = append(bt, fmt.Sprintf("(select (select H0_E_uint8 (s_arr %s)) (bvadd (s_off %s) (_ bv%d 64)))", s.term, s.term, k))
			} else {
				bt = append(bt, fmt.Sprintf("(select (select H0_E_uint8 (s_arr %s)) (+ (s_off %s) %d))", s.term, s.term, k))
			}
		}
		if len(bt) == 0 {
			hints[s.name] = ""
			continue
		}
		bv, ok := getValues(o, pins, bt, workDir)
		if !ok {
			continue
		}
		buf := make([]byte, n)
		for k := range bt {
			if v, ok := smtInt(bv[bt[k]]); ok {
				buf[k] = byte(v)
			}
		}
		hints[s.name] = hex.EncodeToString(buf)
	}
	return hints
}

func smtLitOf(v string) string { return strings.TrimSpace(v) }

// tryReplay runs the property's oracle harness on the real code.  It returns
// true when a concrete failing input was found (recorded in rep).
var noReplay bool

func (e *Engine) tryReplay(prop string, o *Oblig, rep map[string]interface{}, replayDir string) bool {
	if noReplay {
		rep["replay"] = "replay search switched off for this run"
		return false
	}
	work, _ := os.MkdirTemp("", "govc-replay-")
	defer os.RemoveAll(work)
	hints := modelHints(o, work)
	if hints != nil {
		rep["model_hints"] = hints
	}
	ran := false
	for _, f := range oracleFiles(prop) {
		oracle := filepath.Join("/verif/oracle", f)
		if _, err := os.Stat(oracle); err != nil {
			continue
		}
		ran = true
		if e.runOracle(prop, oracle, hints, rep, work) {
			return true
		}
	}
	// second line of search: the demonstrations kept with the seeded changes of this property
	// (tests written from the property text alone; each passes on the unchanged tree)
	demos, _ := filepath.Glob("/verif/seeded/" + prop + "-*/demo_test.go")
	if len(demos) > 0 {
		ran = true
		if demoCache == nil {
			// the demonstrations do not depend on the obligation: run them once per run
			demoCache = map[string]interface{}{}
			for _, d := range demos {
				if e.runDemo(prop, d, demoCache, work) {
					break
				}
			}
		}
		if _, ok := demoCache["failing_input"]; ok {
			for k, v := range demoCache {
				rep[k] = v
			}
			return true
		}
	}
	if !ran {
		rep["replay"] = "no executable oracle for this property"
	}
	return false
}

var demoCache map[string]interface{}

var demoTestRe = regexp.MustCompile(`(?m)^func (Test[A-Za-z0-9_]+)\(`)

// runDemo injects a kept demonstration test into the scratch copy and runs it; a failing
// test is a concrete failing input on the real code.
func (e *Engine) runDemo(prop, demo string, rep map[string]interface{}, work string) bool {
	src, err := os.ReadFile(demo)
	if err != nil {
		return false
	}
	first := strings.SplitN(string(src), "\n", 2)[0]
	dir := strings.TrimSpace(strings.TrimPrefix(strings.TrimPrefix(strings.TrimSpace(first), "//"), " package-dir:"))
	dir = strings.TrimSpace(strings.TrimPrefix(dir, "package-dir:"))
	if st, err := os.Stat(filepath.Join(e.repoDir, dir)); err != nil || !st.IsDir() {
		return false
	}
	var names []string
	for _, m := range demoTestRe.FindAllStringSubmatch(string(src), -1) {
		names = append(names, m[1])
	}
	if len(names) == 0 {
		return false
	}
	ov := map[string]interface{}{"Replace": map[string]string{filepath.Join(e.repoDir, dir, "zz_seed_demo_test.go"): demo}}
	ovb, _ := json.Marshal(ov)
	ovFile := filepath.Join(work, "overlay_demo.json")
	os.WriteFile(ovFile, ovb, 0o644)
	// Several demonstrations depend on timing (a writer that blocks for some milliseconds, a source
	// that pauses for a fraction of the tolerance) and can fail spuriously on a loaded machine.  A
	// failure counts only when the test fails three times in a row.
	text := ""
	for attempt := 0; attempt < 3; attempt++ {
		cmd := exec.Command("bash", "-c", fmt.Sprintf("ulimit -v 8000000; cd %s && go test -overlay %s -vet=off -count=1 -timeout 120s -run '^(%s)$' ./%s 2>&1", e.repoDir, ovFile, strings.Join(names, "|"), dir))
		cmd.Env = append(os.Environ(), "GOFLAGS=-mod=mod", "GOPROXY=off", "GOSUMDB=off", "GOTOOLCHAIN=local")
		out, _ := cmd.CombinedOutput()
		text = string(out)
		if !strings.Contains(text, "--- FAIL") && !strings.Contains(text, "panic:") {
			return false
		}
		if strings.Contains(text, "[build failed]") || strings.Contains(text, "[setup failed]") {
			return false
		}
	}
	// the first lines of the failure describe the input
	var keep []string
	for _, l := range strings.Split(text, "\n") {
		t := strings.TrimSpace(l)
		if t == "" || strings.HasPrefix(t, "=== ") {
			continue
		}
		keep = append(keep, t)
		if len(keep) >= 6 {
			break
		}
	}
	rep["failing_input"] = "test " + strings.Join(names, ",") + " of " + strings.TrimPrefix(demo, "/verif/") + " fails on this tree: " + trunc2(strings.Join(keep, " | "), 900)
	rep["oracle_output"] = trunc2(text, 4000)
	rep["replay"] = "a kept demonstration test (written from the property text alone; it passes on the unchanged tree) fails on the real code"
	return true
}

// runOracle injects the oracle test into the scratch copy with -overlay and runs it.
func (e *Engine) runOracle(prop, oracle string, hints map[string]interface{}, rep map[string]interface{}, work string) bool {
	src, err := os.ReadFile(oracle)
	if err != nil {
		return false
	}
	// first line: "//oracle-package: <dir relative to repo>"
	first := strings.SplitN(string(src), "\n", 2)[0]
	dir := strings.TrimSpace(strings.TrimPrefix(first, "//oracle-package:"))
	testFile := filepath.Join(work, "zz_oracle_test.go")
	os.WriteFile(testFile, src, 0o644)
	hintFile := filepath.Join(work, "hints.json")
	hb, _ := json.Marshal(hints)
	os.WriteFile(hintFile, hb, 0o644)
	ov := map[string]interface{}{"Replace": map[string]string{filepath.Join(e.repoDir, dir, "zz_oracle_test.go"): testFile}}
	ovb, _ := json.Marshal(ov)
	ovFile := filepath.Join(work, "overlay.json")
	os.WriteFile(ovFile, ovb, 0o644)
	cmd := exec.Command("bash", "-c", fmt.Sprintf("ulimit -v 8000000; cd %s && go test -overlay %s -vet=off -count=1 -v -timeout 120s -run 'TestOracle%s$' ./%s 2>&1", e.repoDir, ovFile, prop, dir))
	cmd.Env = append(os.Environ(), "ORACLE_HINTS="+hintFile, "ORACLE_SEED="+os.Getenv("VERIF_SEED"),
		"GOFLAGS=-mod=mod", "GOPROXY=off", "GOSUMDB=off", "GOTOOLCHAIN=local")
	var out bytes.Buffer
	cmd.Stdout = &out
	cmd.Stderr = &out
	cmd.Run()
	text := out.String()
	rep["oracle_output"] = trunc2(text, 4000)
	if strings.Contains(text, "[build failed]") || strings.Contains(text, "[setup failed]") {
		rep["replay"] = "the oracle harness does not build against this tree (it names identifiers the tree no longer has)"
		rep["oracle_unbuildable"] = true
		return false
	}
	for _, l := range strings.Split(text, "\n") {
		if i := strings.Index(l, "ORACLE-VIOLATION:"); i >= 0 {
			rep["failing_input"] = strings.TrimSpace(l[i+len("ORACLE-VIOLATION:"):])
			rep["replay"] = "the oracle harness reproduced a violation of the property statement on the real code"
			return true
		}
	}
	rep["replay"] = "the oracle harness found no failing input (hinted input plus seeded search)"
	return false
}

func oracleFiles(prop string) []string {
	switch prop {
	case "C11":
		return []string{"displayrtcm3.go.txt", "rtcmfilter.go.txt"}
	case "C10":
		return []string{"rtcmfilter.go.txt"}
	case "C19":
		return []string{"reportfeed.go.txt"}
	}
	return []string{oracleFile(prop)}
}

// oracleFile maps a property to the file holding its executable oracle.
func oracleFile(prop string) string {
	switch prop {
	case "C01", "C02", "C03", "C12", "C07", "C06", "C17":
		return "handler.go.txt"
	}
	if prop == "C16" {
		return "rtcmlogger.go.txt"
	}
	return prop + ".go.txt"
}

// replayOnly re-runs the oracle(s) of a property on the current tree with the
// model hints recorded in a replay file; exit status 1 when a violation is reproduced.
func replayOnly(e *Engine, prop, file string) int {
	data, err := os.ReadFile(file)
	if err != nil {
		fmt.Fprintln(os.Stderr, "govc:", err)
		return 2
	}
	var rec map[string]interface{}
	if err := json.Unmarshal(data, &rec); err != nil {
		fmt.Fprintln(os.Stderr, "govc:", err)
		return 2
	}
	hints, _ := rec["model_hints"].(map[string]interface{})
	work, _ := os.MkdirTemp("", "govc-replay-")
	defer os.RemoveAll(work)
	fmt.Printf("replaying %v (%v)\n", rec["obligation"], rec["clause"])
	ran := false
	for _, f := range oracleFiles(prop) {
		oracle := filepath.Join("/verif/oracle", f)
		if _, err := os.Stat(oracle); err != nil {
			continue
		}
		ran = true
		rep := map[string]interface{}{}
		if e.runOracle(prop, oracle, hints, rep, work) {
			fmt.Printf("reproduced on the real code: %v\n", rep["failing_input"])
			fmt.Printf("VIOLATION property=%s replay=%s\n", prop, file)
			return 1
		}
	}
	if !ran {
		fmt.Println("no executable oracle for this property; the replay file names the failed obligation and carries the solver output")
		return 0
	}
	fmt.Println("not reproduced on the current tree (hinted input plus seeded search)")
	return 0
}
