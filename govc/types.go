package main

// Mapping from Go types to SMT sorts, zero values, and heap component names.

import (
	"fmt"
	"go/types"
	"math/big"
	"sort"
	"strings"
)

// Val is a symbolic value: an SMT term together with its Go type (may be nil
// for pure specification values) and its SMT sort.
type Val struct {
	T  string
	Ty types.Type
	S  string
}

// Sorts holds per-query sort declarations (struct datatypes etc).
type Sorts struct {
	bv       bool
	declared map[string]bool
	decls    []string // datatype declarations in dependency order
	structs  map[string]*types.Struct
	strLits  map[string]string // literal -> const name
	strOrder []string
	typeTags map[string]int
	tagOrder []string
}

func newSorts(bv bool) *Sorts {
	return &Sorts{bv: bv, declared: map[string]bool{}, structs: map[string]*types.Struct{}, strLits: map[string]string{}, typeTags: map[string]int{}}
}

func isTime(t types.Type) bool {
	if n, ok := t.(*types.Named); ok {
		o := n.Obj()
		return o.Pkg() != nil && o.Pkg().Path() == "time" && o.Name() == "Time"
	}
	return false
}

func intInfo(t types.Type) (bits uint, signed bool, ok bool) {
	b, isb := t.Underlying().(*types.Basic)
	if !isb {
		return 0, false, false
	}
	switch b.Kind() {
	case types.Int, types.Int64, types.UntypedInt, types.UntypedRune:
		return 64, true, true
	case types.Int32:
		return 32, true, true
	case types.Int16:
		return 16, true, true
	case types.Int8:
		return 8, true, true
	case types.Uint, types.Uint64, types.Uintptr:
		return 64, false, true
	case types.Uint32:
		return 32, false, true
	case types.Uint16:
		return 16, false, true
	case types.Uint8:
		return 8, false, true
	}
	return 0, false, false
}

func intRange(t types.Type) (lo, hi *big.Int) {
	bits, signed, _ := intInfo(t)
	if signed {
		hi = new(big.Int).Sub(pow2(bits-1), big.NewInt(1))
		lo = new(big.Int).Neg(pow2(bits - 1))
	} else {
		lo = big.NewInt(0)
		hi = new(big.Int).Sub(pow2(bits), big.NewInt(1))
	}
	return
}

func (s *Sorts) intSort(t types.Type) string {
	if s.bv {
		bits, _, _ := intInfo(t)
		return fmt.Sprintf("(_ BitVec %d)", bits)
	}
	return "Int"
}

func (s *Sorts) idxSort() string {
	if s.bv {
		return "(_ BitVec 64)"
	}
	return "Int"
}

func (s *Sorts) sliceSort() string {
	if s.bv {
		return "SliceBV"
	}
	return "Slice"
}

// sortOf returns the SMT sort for a Go type.
func (s *Sorts) sortOf(t types.Type) string {
	if isTime(t) {
		return "TimeT"
	}
	switch u := t.(type) {
	case *types.Named:
		if st, ok := u.Underlying().(*types.Struct); ok {
			name := "S_" + mangle(typeKey(u))
			s.declStruct(name, st)
			return name
		}
		return s.sortOf(u.Underlying())
	case *types.Alias:
		return s.sortOf(types.Unalias(t))
	case *types.Basic:
		if _, _, ok := intInfo(u); ok {
			return s.intSort(u)
		}
		switch u.Kind() {
		case types.Bool, types.UntypedBool:
			return "Bool"
		case types.String, types.UntypedString:
			return "Str"
		case types.Float64, types.Float32, types.UntypedFloat:
			return "Real"
		case types.UnsafePointer:
			return "Int"
		case types.UntypedNil:
			return "Int"
		}
	case *types.Pointer, *types.Map, *types.Chan, *types.Signature:
		return "Int"
	case *types.Slice:
		return s.sliceSort()
	case *types.Interface:
		return "Iface"
	case *types.Struct:
		name := "S_anon_" + mangle(typeKey(u))
		s.declStruct(name, u)
		return name
	case *types.Array:
		return arrSort(s.idxSort(), s.sortOf(u.Elem()))
	case *types.Tuple:
		return "TUPLE"
	}
	panic(fmt.Sprintf("sortOf: unsupported type %v (%T)", t, t))
}

func typeKey(t types.Type) string {
	switch u := t.(type) {
	case *types.Alias:
		return typeKey(types.Unalias(t))
	case *types.Named:
		o := u.Obj()
		if o.Pkg() != nil {
			return o.Pkg().Path() + "." + o.Name()
		}
		return o.Name()
	case *types.Basic:
		switch u.Kind() {
		case types.Uint8:
			return "uint8"
		case types.Int32:
			return "int32"
		}
		return u.Name()
	case *types.Pointer:
		return "*" + typeKey(u.Elem())
	case *types.Slice:
		return "[]" + typeKey(u.Elem())
	case *types.Array:
		return fmt.Sprintf("[%d]%s", u.Len(), typeKey(u.Elem()))
	case *types.Map:
		return "map[" + typeKey(u.Key()) + "]" + typeKey(u.Elem())
	case *types.Chan:
		return "chan " + typeKey(u.Elem())
	case *types.Interface:
		if u.Empty() {
			return "iface"
		}
		return "iface{" + fmt.Sprint(u.NumMethods()) + "}"
	case *types.Struct:
		var fs []string
		for i := 0; i < u.NumFields(); i++ {
			fs = append(fs, u.Field(i).Name()+":"+typeKey(u.Field(i).Type()))
		}
		return "struct{" + strings.Join(fs, ";") + "}"
	case *types.Signature:
		return "func"
	}
	return t.String()
}

func (s *Sorts) declStruct(name string, st *types.Struct) {
	if s.declared[name] {
		return
	}
	s.declared[name] = true
	s.structs[name] = st
	var fields []string
	for i := 0; i < st.NumFields(); i++ {
		fs := s.sortOf(st.Field(i).Type())
		fields = append(fields, fmt.Sprintf("(%s_f%d %s)", name, i, fs))
	}
	s.decls = append(s.decls, fmt.Sprintf("(declare-datatypes ((%s 0)) (((mk_%s %s))))", name, name, strings.Join(fields, " ")))
}

// field accessors on struct values
func (s *Sorts) getField(sortName, v string, i int) string {
	pre := "(mk_" + sortName + " "
	if strings.HasPrefix(v, pre) {
		// constructor application: pick the argument
		args := splitArgs(v[len(pre) : len(v)-1])
		if i < len(args) {
			return args[i]
		}
	}
	return fmt.Sprintf("(%s_f%d %s)", sortName, i, v)
}

func (s *Sorts) setField(sortName, v string, i int, nv string) string {
	st := s.structs[sortName]
	args := make([]string, st.NumFields())
	for k := range args {
		if k == i {
			args[k] = nv
		} else {
			args[k] = s.getField(sortName, v, k)
		}
	}
	if len(args) == 0 {
		return "mk_" + sortName
	}
	return "(mk_" + sortName + " " + strings.Join(args, " ") + ")"
}

// splitArgs splits a space-separated list of s-expressions at depth 0.
func splitArgs(s string) []string {
	var out []string
	d := 0
	start := -1
	inBar := false
	for i := 0; i < len(s); i++ {
		c := s[i]
		if inBar {
			if c == '|' {
				inBar = false
			}
			continue
		}
		switch c {
		case '|':
			inBar = true
			if start < 0 {
				start = i
			}
		case '(':
			if start < 0 {
				start = i
			}
			d++
		case ')':
			d--
		case ' ':
			if d == 0 && start >= 0 {
				out = append(out, s[start:i])
				start = -1
			}
		default:
			if start < 0 {
				start = i
			}
		}
	}
	if start >= 0 {
		out = append(out, s[start:])
	}
	return out
}

func (s *Sorts) mkStruct(sortName string, fields []string) string {
	if len(fields) == 0 {
		return "mk_" + sortName
	}
	return "(mk_" + sortName + " " + strings.Join(fields, " ") + ")"
}

func (s *Sorts) intLit(t types.Type, v *big.Int) string {
	if s.bv {
		bits, _, _ := intInfo(t)
		m := new(big.Int).Mod(v, pow2(bits))
		return fmt.Sprintf("(_ bv%s %d)", m.String(), bits)
	}
	return ilitB(v)
}

func (s *Sorts) idxLit(v int64) string {
	if s.bv {
		return fmt.Sprintf("(_ bv%d 64)", v)
	}
	return ilit(v)
}

func (s *Sorts) nilSlice() string {
	z := s.idxLit(0)
	return "(mk_" + s.sliceSort() + " 0 " + z + " " + z + " " + z + ")"
}

// zero value of a type
func (s *Sorts) zero(t types.Type) string {
	if isTime(t) {
		return "(mk_TimeT ZERO_TIME_NS 0)"
	}
	switch u := t.Underlying().(type) {
	case *types.Basic:
		if _, _, ok := intInfo(u); ok {
			return s.intLit(u, big.NewInt(0))
		}
		switch u.Kind() {
		case types.Bool, types.UntypedBool:
			return "false"
		case types.String, types.UntypedString:
			return s.strLit("")
		case types.Float64, types.Float32, types.UntypedFloat:
			return "0.0"
		default:
			return "0"
		}
	case *types.Pointer, *types.Map, *types.Chan, *types.Signature:
		return "0"
	case *types.Slice:
		return s.nilSlice()
	case *types.Interface:
		return "(mk_Iface 0 0)"
	case *types.Struct:
		name := s.sortOf(t)
		fs := make([]string, u.NumFields())
		for i := range fs {
			fs[i] = s.zero(u.Field(i).Type())
		}
		return s.mkStruct(name, fs)
	case *types.Array:
		return fmt.Sprintf("((as const %s) %s)", s.sortOf(t), s.zero(u.Elem()))
	}
	panic(fmt.Sprintf("zero: unsupported %v", t))
}

func (s *Sorts) strLit(lit string) string {
	if n, ok := s.strLits[lit]; ok {
		return n
	}
	n := fmt.Sprintf("str_%d", len(s.strLits))
	s.strLits[lit] = n
	s.strOrder = append(s.strOrder, lit)
	return n
}

func (s *Sorts) typeTag(t types.Type) string {
	k := typeKey(t)
	if n, ok := s.typeTags[k]; ok {
		return fmt.Sprint(n)
	}
	n := len(s.typeTags) + 1
	s.typeTags[k] = n
	s.tagOrder = append(s.tagOrder, k)
	return fmt.Sprint(n)
}

// preamble emits the fixed sorts plus everything declared so far.
func (s *Sorts) preamble() []string {
	var out []string
	out = append(out,
		"(declare-sort Str 0)",
		"(declare-datatypes ((Slice 0)) (((mk_Slice (s_arr Int) (s_off Int) (s_len Int) (s_cap Int)))))",
		"(declare-datatypes ((Iface 0)) (((mk_Iface (i_tag Int) (i_val Int)))))",
		"(declare-datatypes ((TimeT 0)) (((mk_TimeT (t_ns Int) (t_loc Int)))))",
		"(declare-datatypes ((SeqI 0)) (((mk_SeqI (q_arr (Array Int Int)) (q_len Int)))))",
		"(declare-const ZERO_TIME_NS Int)",
		"(assert (= ZERO_TIME_NS (- 62135596800000000000)))",
		"(declare-fun strlen (Str) Int)",
		"(declare-fun strcat (Str Str) Str)",
		"(declare-fun errmsg (Int) Str)",
		"(declare-fun str2i (Str) Int)",
		"(declare-fun i2str (Int) Str)",
		"(declare-fun strcontains (Str Str) Bool)",
		"(declare-fun bitof (Int Int) Int)",
		"(assert (forall ((x!b Int) (s!b Int)) (! (and (<= 0 (bitof x!b s!b)) (<= (bitof x!b s!b) 1)) :pattern ((bitof x!b s!b)))))",
	)
	if s.bv {
		out = append(out, "(declare-datatypes ((SliceBV 0)) (((mk_SliceBV (s_arr Int) (s_off (_ BitVec 64)) (s_len (_ BitVec 64)) (s_cap (_ BitVec 64))))))")
	}
	out = append(out, s.decls...)
	lits := append([]string(nil), s.strOrder...)
	for _, l := range lits {
		n := s.strLits[l]
		out = append(out, fmt.Sprintf("(declare-const %s Str) ; %q", n, trunc(l, 60)))
		out = append(out, fmt.Sprintf("(assert (= (strlen %s) %d))", n, len(l)))
		out = append(out, fmt.Sprintf("(assert (= (i2str (str2i %s)) %s))", n, n))
	}
	// substring facts between literals, for one-character patterns
	for _, pat := range lits {
		if len(pat) != 1 {
			continue
		}
		for _, l := range lits {
			f := fmt.Sprintf("(strcontains %s %s)", s.strLits[l], s.strLits[pat])
			if !strings.Contains(l, pat) {
				f = "(not " + f + ")"
			}
			out = append(out, "(assert "+f+")")
		}
	}
	if len(lits) > 1 {
		var ns []string
		for _, l := range lits {
			ns = append(ns, s.strLits[l])
		}
		sort.Strings(ns)
		out = append(out, "(assert (distinct "+strings.Join(ns, " ")+"))")
	}
	return out
}

func trunc(s string, n int) string {
	s = strings.ReplaceAll(s, "\n", "\\n")
	if len(s) > n {
		return s[:n] + "..."
	}
	return s
}
